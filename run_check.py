"""Entry point (kept outside the package so that no module is loaded twice)."""
import sys
from pathlib import Path

sys.path.insert(0, str(Path(__file__).resolve().parent))
from simkit.runner import main  # noqa: E402

if __name__ == "__main__":
    sys.exit(main(sys.argv[1:]))
