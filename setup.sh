#!/bin/bash
# Offline setup: nothing to build; verify the interpreter can import mxlpy from /repo/src.
set -e
cd "$(dirname "$0")"
mkdir -p evidence replays
export OMP_NUM_THREADS=1 OPENBLAS_NUM_THREADS=1 MKL_NUM_THREADS=1
PYTHONPATH=/repo/src /venv/bin/python -P -c "import mxlpy, sys; assert mxlpy.__file__.startswith('/repo/src'), mxlpy.__file__; print('setup ok', mxlpy.__file__)"
