"""Lockstep back-end for SimPool: W workers genuinely IN FLIGHT at the same time.

Each task of a map runs in its own real thread, but only one thread runs at any instant:
a task runs until its next yield point (every file-system action the crash seam sees: exists,
open, each chunk written, close, replace, unlink), parks, and hands the baton back to the
driver.  The driver is the parent's own `next(results)` call: a seeded PRNG decides, step by
step, whether a queued task starts or which parked task advances.  Code the parent runs
BETWEEN two next() calls (an except-handler, a cleanup) therefore executes while other
workers are parked in the middle of writing their result - the interleaving a real pool
produces only by accident.

Faults the driver owns:
* per-task timeout (pebble semantics): when the parent asks for a task listed in
  plan.timeout_tasks the system gets a seeded number of further steps, then - unless the task
  finished in time - its worker is killed where it stands (never resumed; what it wrote
  stays) and TimeoutError is raised at that next();
* whole-process death at the n-th step (os._exit): the crash state then holds the
  half-written temporaries of SEVERAL workers at once.
The choice of who runs is never real: one integer (plan.seed) fixes the whole schedule.
"""

from __future__ import annotations

import os
import pickle
import random
import threading

_TLS = threading.local()
EXIT_KILLED = 77
_BACK = threading.Semaphore(0)  # one baton for the whole process: orphans of a dead driver are stepped by the next one
ORPHANS: list = []  # in-flight tasks whose parent "died" (they finish their current task, as pebble workers do)
_INCARNATION = [0]
_REAL_GETPID = os.getpid


class ParentDied(BaseException):
    """Only the parent process of a parallel run is killed; its workers live on as orphans."""


def _fake_getpid() -> int:
    return getattr(_TLS, "pid", None) or _REAL_GETPID()


def install_worker_pids() -> None:
    """Every simulated worker reports its own process id (threads of one process would
    otherwise all share the parent's): os.getpid() inside a task thread is the worker's."""
    os.getpid = _fake_getpid


def in_task() -> bool:
    return getattr(_TLS, "task", None) is not None


def yield_point(label: str) -> None:
    """Called by the seams from inside task code.  No-op outside a lockstep task thread."""
    cur = getattr(_TLS, "task", None)
    if cur is None:
        return
    _, t = cur
    t.at = label
    _BACK.release()
    t.go.acquire()


class _Task:
    __slots__ = ("idx", "payload", "state", "go", "outcome", "steps", "at", "thread", "pid")

    def __init__(self, idx: int, payload) -> None:  # noqa: ANN001
        self.idx = idx
        self.payload = payload
        self.state = "new"  # new | parked | done | killed
        self.go = threading.Semaphore(0)
        self.outcome = None
        self.steps = 0
        self.at = "queued"
        self.thread = None
        self.pid = 0


class LockstepResults:
    """The iterator pebble's map().result() returns, driven lazily."""

    def __init__(self, pool, payloads: list, timeout, expired_factory) -> None:  # noqa: ANN001
        self.pool = pool
        self.plan = pool.plan
        self.W = pool.workers
        self.timeout = timeout
        self.tasks = [_Task(i, p) for i, p in enumerate(payloads)]
        self.n = len(self.tasks)
        self.cursor = 0
        self.next_unstarted = 0
        _INCARNATION[0] += 1
        for t in self.tasks:
            t.pid = 40000 + _INCARNATION[0] * 1000 + (t.idx % max(1, self.W))
        self.orphans = [o for o in ORPHANS if o.state == "parked"] if getattr(self.plan, "adopt_orphans", False) else []
        self.rng = random.Random((self.plan.seed * 1000003 + self.plan.maps * 7919 + self.n * 31 + 17) & 0xFFFFFFFFFFFF)
        self.schedule: list = []
        self.choices: list[int] = []  # the schedule as data: -1 = start, i = advance task i
        self.script = list(self.plan.script) if self.plan.script is not None and self.plan.maps == 0 else None
        self.tparams: dict = {}
        self.timed_out: list[int] = []
        self.max_inflight = 0
        self._expired = expired_factory
        for t in self.tasks:
            if isinstance(t.payload, BaseException):
                t.outcome = ("exc", t.payload)
                t.state = "done"

    # -- task thread ------------------------------------------------------
    def _body(self, t: _Task) -> None:
        _TLS.task = (self, t)
        _TLS.pid = t.pid
        t.go.acquire()
        try:
            fn, args = pickle.loads(t.payload)  # noqa: S301
            res = fn(*args)
            t.outcome = ("ok", pickle.dumps(res))
        except Exception as e:  # noqa: BLE001
            t.outcome = ("exc", e)
        except BaseException as e:  # noqa: BLE001
            if type(e).__name__ == "SimWorkerDeath":
                t.outcome = ("exc", self._expired())
            else:
                t.outcome = ("exc", RuntimeError(f"task died with {type(e).__name__}"))
        t.at = "done"
        t.state = "done"
        _TLS.task = None
        _BACK.release()

    # -- driver -----------------------------------------------------------
    def _parked(self) -> list[_Task]:
        return [t for t in self.tasks if t.state == "parked"]

    def _orphans_parked(self) -> list[_Task]:
        return [o for o in self.orphans if o.state == "parked"]

    def _can_step(self) -> bool:
        return bool(self._parked()) or self._startable() or bool(self._orphans_parked())

    def _startable(self) -> bool:
        while self.next_unstarted < self.n and self.tasks[self.next_unstarted].state != "new":
            self.next_unstarted += 1
        return self.next_unstarted < self.n and len(self._parked()) < self.W

    def _tick(self) -> None:
        plan = self.plan
        if plan.yields == plan.kill_at_yield:
            if getattr(plan, "parent_only", False):
                # only the parent dies: what is in flight lives on, what is queued never starts
                plan.parent_dead = True
                ORPHANS.extend(t for t in self.tasks if t.state == "parked" and t.at != "start")
                plan.kill_at_yield = -1
                raise ParentDied
            os._exit(EXIT_KILLED)
        plan.yields += 1

    def _start(self, t: _Task) -> None:
        self._tick()
        t.state = "parked"
        t.at = "start"
        t.thread = threading.Thread(target=self._body, args=(t,), daemon=True)
        t.thread.start()
        self.schedule.append((t.idx, "start"))

    def _resume(self, t: _Task) -> None:
        self._tick()
        inflight = sum(1 for x in self._parked() if x.at in ("write", "close", "replace"))
        self.max_inflight = max(self.max_inflight, inflight)
        t.steps += 1
        t.go.release()
        _BACK.acquire()
        self.schedule.append((t.idx, t.at))

    def _step(self, stalled: _Task | None = None) -> bool:
        cands: list = [t for t in self._parked() if t is not stalled]
        if self._startable():
            cands.append("start")
        cands += self._orphans_parked()  # workers of a dead parent, still finishing their task
        if not cands:
            return False
        if self.script is not None:
            # explicit schedule; an entry that is not possible (any more) falls back to the
            # first candidate, so every shortened script is still a legal schedule
            want = self.script.pop(0) if self.script else None
            c = cands[0]
            for x in cands:
                if (x == "start" and want == -1) or (x != "start" and x.idx == want):
                    c = x
        else:
            c = self.rng.choice(cands)
        self.choices.append(-1 if c == "start" else c.idx)
        if c == "start":
            self._start(self.tasks[self.next_unstarted])
            self.next_unstarted += 1
        else:
            self._resume(c)
        return True

    def __iter__(self):  # noqa: ANN204
        return self

    def __next__(self):  # noqa: ANN204
        i = self.cursor
        if i >= self.n:
            raise StopIteration
        self.cursor += 1
        t = self.tasks[i]
        if i in self.plan.timeout_tasks and self.timeout is not None and t.state != "done":
            # a task that runs out of time is slow: it gets a few steps of its own, then stalls
            # where it stands while the rest of the system goes on until the deadline passes
            own = self.rng.choice([0, 0, 1, 2, 3, 4, 5])
            budget = self.rng.choice([0, 1, 2, 3, 5, 8, 13, 21])
            if self.plan.tparams is not None and str(i) in self.plan.tparams:
                own, budget = self.plan.tparams[str(i)]
            self.tparams[str(i)] = [own, budget]
            while budget > 0 and t.state != "done":
                if not self._step(stalled=t if t.steps >= own else None):
                    break
                budget -= 1
            if t.state != "done":
                # the deadline passes: pebble kills that worker wherever it stands
                self.schedule.append((i, "timeout_kill@" + str(t.at)))
                t.state = "killed"
                self.timed_out.append(i)
                self.plan.timed_out.append(i)
                raise TimeoutError("simulated task timeout")
        while t.state != "done":
            if not self._can_step():
                raise RuntimeError("lockstep driver: deadlock (harness)")
            self._step()
        kind, payload = t.outcome
        if kind == "ok":
            return pickle.loads(payload)  # noqa: S301
        raise payload

    next = __next__

    def drain(self) -> None:
        """pool.close()+join(): everything still queued or in flight runs to completion."""
        while self._can_step():
            self._step()
        self.plan.record.append({
            "n": self.n, "W": self.W, "lockstep": True, "steps": len(self.schedule),
            "timed_out": list(self.timed_out), "max_inflight": self.max_inflight,
            "schedule": [list(s) for s in self.schedule], "choices": list(self.choices), "tparams": dict(self.tparams),
        })
