"""Closed-form model families.  Every family is a spec (plain data) from which BOTH the
MxlPy model and the reference solution are built independently."""

from __future__ import annotations

import numpy as np

from simkit import fnlib
from simkit.core import HarnessError

# family -> (variables, parameters)
FAMILIES = {
    "F1": (["x"], ["c", "k"]),  # dx/dt = c - k x
    "F2": (["x", "y"], ["c", "k1", "k2"]),  # chain
    "F2r": (["x", "y"], ["kf", "kr"]),  # reversible, conserved
    "F3": (["x"], ["a"]),  # dx/dt = a * time   (non-autonomous)
    "F4": (["x"], ["k"]),  # dx/dt = k x
    "F5": (["x"], ["c"]),  # dx/dt = c         (no steady state)
    "F6": (["x", "y", "z"], ["c", "k1", "k2", "k3"]),  # 3-chain
    "F1n": (["x"], ["c", "k", "n"]),  # dx/dt = n c - k x with the COEFFICIENT n computed from a parameter
}
AUTONOMOUS = {"F1", "F2", "F2r", "F4", "F5", "F6", "F1n"}


def _dec(x, k):  # noqa: ANN001, ANN202
    return k * x


def _flow(x, y, kf, kr):  # noqa: ANN001, ANN202
    return kf * x - kr * y


def build_model(spec: dict):  # noqa: ANN201
    """The MxlPy model of a spec {"family", "params", "y0"}."""
    from mxlpy import Model

    fam = spec["family"]
    p, y0 = spec["params"], spec["y0"]
    m = Model()
    m.add_parameters({k: float(p[k]) for k in FAMILIES[fam][1]})
    m.add_variables({k: float(y0[k]) for k in FAMILIES[fam][0]})
    if fam == "F1":
        m.add_reaction("vin", fnlib.const, args=["c"], stoichiometry={"x": 1})
        m.add_reaction("vout", fnlib.ma1, args=["x", "k"], stoichiometry={"x": -1})
    elif fam == "F1n":
        from mxlpy import Derived

        m.add_reaction("vin", fnlib.const, args=["c"], stoichiometry={"x": Derived(fn=fnlib.const, args=["n"])})
        m.add_reaction("vout", fnlib.ma1, args=["x", "k"], stoichiometry={"x": -1})
    elif fam == "F2":
        m.add_reaction("vin", fnlib.const, args=["c"], stoichiometry={"x": 1})
        m.add_reaction("v1", fnlib.ma1, args=["x", "k1"], stoichiometry={"x": -1, "y": 1})
        m.add_reaction("v2", fnlib.ma1, args=["y", "k2"], stoichiometry={"y": -1})
    elif fam == "F6":
        m.add_reaction("vin", fnlib.const, args=["c"], stoichiometry={"x": 1})
        m.add_reaction("v1", fnlib.ma1, args=["x", "k1"], stoichiometry={"x": -1, "y": 1})
        m.add_reaction("v2", fnlib.ma1, args=["y", "k2"], stoichiometry={"y": -1, "z": 1})
        m.add_reaction("v3", fnlib.ma1, args=["z", "k3"], stoichiometry={"z": -1})
    elif fam == "F2r":
        m.add_reaction("v1", fnlib.ma1_rev, args=["x", "y", "kf", "kr"], stoichiometry={"x": -1, "y": 1})
    elif fam == "F3":
        m.add_reaction("vin", fnlib.ramp, args=["time", "a"], stoichiometry={"x": 1})
    elif fam == "F4":
        m.add_reaction("v", fnlib.ma1, args=["x", "k"], stoichiometry={"x": 1})
    elif fam == "F5":
        m.add_reaction("vin", fnlib.const, args=["c"], stoichiometry={"x": 1})
    else:
        raise HarnessError(f"unknown family {fam}")
    return m


def matrix(fam: str, p: dict) -> tuple[np.ndarray, np.ndarray]:
    """(A, b) of dy/dt = A y + b, written down from the spec (not from MxlPy)."""
    if fam == "F1":
        return np.array([[-p["k"]]]), np.array([p["c"]])
    if fam == "F1n":
        return np.array([[-p["k"]]]), np.array([p["n"] * p["c"]])
    if fam == "F2":
        return np.array([[-p["k1"], 0.0], [p["k1"], -p["k2"]]]), np.array([p["c"], 0.0])
    if fam == "F6":
        return (
            np.array([[-p["k1"], 0.0, 0.0], [p["k1"], -p["k2"], 0.0], [0.0, p["k2"], -p["k3"]]]),
            np.array([p["c"], 0.0, 0.0]),
        )
    if fam == "F2r":
        return np.array([[-p["kf"], p["kr"]], [p["kf"], -p["kr"]]]), np.array([0.0, 0.0])
    if fam == "F4":
        return np.array([[p["k"]]]), np.array([0.0])
    if fam == "F5":
        return np.array([[0.0]]), np.array([p["c"]])
    raise HarnessError(f"no matrix for {fam}")


def propagate(fam: str, p: dict, y: np.ndarray, t0: float, t1: float) -> np.ndarray:
    """Exact state at absolute time t1 given state y at absolute time t0."""
    from scipy.linalg import expm

    y = np.asarray(y, dtype=float)
    if fam == "F3":
        return y + p["a"] * (t1 * t1 - t0 * t0) / 2.0
    a, b = matrix(fam, p)
    n = len(b)
    m = np.zeros((n + 1, n + 1))
    m[:n, :n] = a
    m[:n, n] = b
    e = expm(m * (t1 - t0))
    return e[:n, :n] @ y + e[:n, n]


def rates(fam: str, p: dict, y: np.ndarray, t: float) -> dict[str, float]:
    """Reaction rates written down from the spec."""
    y = np.asarray(y, dtype=float)
    if fam in ("F1", "F1n"):
        return {"vin": p["c"], "vout": p["k"] * y[0]}
    if fam == "F2":
        return {"vin": p["c"], "v1": p["k1"] * y[0], "v2": p["k2"] * y[1]}
    if fam == "F6":
        return {"vin": p["c"], "v1": p["k1"] * y[0], "v2": p["k2"] * y[1], "v3": p["k3"] * y[2]}
    if fam == "F2r":
        return {"v1": p["kf"] * y[0] - p["kr"] * y[1]}
    if fam == "F3":
        return {"vin": p["a"] * t}
    if fam == "F4":
        return {"v": p["k"] * y[0]}
    if fam == "F5":
        return {"vin": p["c"]}
    raise HarnessError(fam)


def steady_state(fam: str, p: dict) -> np.ndarray | None:
    """Unique stable steady state -A^-1 b, or None if the family has none."""
    if fam in ("F3", "F5", "F2r"):
        return None
    a, b = matrix(fam, p)
    ev = np.linalg.eigvals(a)
    if np.any(ev.real >= 0):
        return None
    return -np.linalg.solve(a, b)


# --------------------------------------------------------------------------
# families for scans / views / mca / fit (factories: a fresh model per call)
# --------------------------------------------------------------------------
def _rev_tot(x, tot, kr):  # noqa: ANN001, ANN202
    return kr * (tot - x)


def _ratio(x, y):  # noqa: ANN001, ANN202
    return x / (y + 1.0)


def _sum2(x, y):  # noqa: ANN001, ANN202
    return x + y


def _twice(k):  # noqa: ANN001, ANN202
    return 2.0 * k


def double_ma1(s, k):  # noqa: ANN001, ANN202
    return 2.0 * k * s


def scan_model(name: str):  # noqa: ANN201
    """S1: chain with a derived variable and a readout.
    S2: conserved pair whose backward rate uses a PARAMETER defined by an initial
        assignment over the initial values (tot = x0 + y0).
    S3: S1 whose outflow is div(y, kd): raises ZeroDivisionError for kd == 0."""
    from mxlpy import InitialAssignment, Model

    m = Model()
    if name in ("S1", "S3"):
        m.add_parameters({"c": 1.0, "k1": 0.5, "k2": 0.25, "kd": 2.0})
        m.add_variables({"x": 1.0, "y": 0.5})
        m.add_derived("tot", _sum2, args=["x", "y"])
        m.add_derived("k12", fnlib.add, args=["k1", "k2"])  # derived parameter
        m.add_reaction("vin", fnlib.const, args=["c"], stoichiometry={"x": 1})
        m.add_reaction("v1", fnlib.ma1, args=["x", "k1"], stoichiometry={"x": -1, "y": 1})
        if name == "S1":
            m.add_reaction("v2", fnlib.ma1, args=["y", "k2"], stoichiometry={"y": -1})
        else:
            m.add_reaction("v2", fnlib.div, args=["y", "kd"], stoichiometry={"y": -1})
        m.add_readout("ratio", _ratio, args=["x", "y"])
        return m
    if name == "S4":
        # S1 whose second variable STARTS at a value computed from a parameter (2 * k1)
        from mxlpy import InitialAssignment as _IA

        m.add_parameters({"c": 1.0, "k1": 0.5, "k2": 0.25})
        m.add_variable("x", 1.0)
        m.add_variable("y", _IA(fn=_twice, args=["k1"]))
        m.add_derived("tot", _sum2, args=["x", "y"])
        m.add_reaction("vin", fnlib.const, args=["c"], stoichiometry={"x": 1})
        m.add_reaction("v1", fnlib.ma1, args=["x", "k1"], stoichiometry={"x": -1, "y": 1})
        m.add_reaction("v2", fnlib.ma1, args=["y", "k2"], stoichiometry={"y": -1})
        return m
    if name == "S2":
        m.add_parameters({"kf": 1.0, "kr": 0.5})
        m.add_variables({"x": 2.0, "y": 1.0})
        m.add_parameter("tot", InitialAssignment(fn=_sum2, args=["x", "y"]))
        m.add_reaction("v1", fnlib.ma1, args=["x", "kf"], stoichiometry={"x": -1, "y": 1})
        m.add_reaction("v2", _rev_tot, args=["x", "tot", "kr"], stoichiometry={"x": 1, "y": -1})
        m.add_derived("frac", fnlib.div, args=["x", "tot"])
        return m
    raise HarnessError(f"unknown scan model {name}")


SCAN_MODELS = {
    # name -> (scannable parameters, scannable variables)
    "S1": (["c", "k1", "k2"], ["x", "y"]),
    "S2": (["kf", "kr", "tot"], ["x", "y"]),  # tot: a parameter DEFINED by an initial assignment; scanning it replaces the assignment by the row value
    "S3": (["c", "k1", "kd"], ["x", "y"]),
    "S4": (["c", "k1", "k2"], ["x"]),  # y starts at 2*k1 (initial assignment): scanning k1 moves the start
}
