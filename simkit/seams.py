"""Seams the simulator owns (no repo hook needed: module attributes, ctor arguments)."""

from __future__ import annotations

import logging


class _SilentTqdm:
    """Progress bar stub: reads no clock, writes nothing."""

    def __init__(self, iterable=None, *a, **k):  # noqa: ANN001, ANN002, ANN003, ARG002
        self._it = iterable

    def __iter__(self):  # noqa: ANN204
        return iter(self._it if self._it is not None else ())

    def __enter__(self):  # noqa: ANN204
        return self

    def __exit__(self, *a):  # noqa: ANN002
        return False

    def update(self, n=1):  # noqa: ANN001, ARG002
        return None

    def close(self) -> None:
        return None


def install_quiet() -> None:
    """Silence progress bars and library logging (no wall clock reads inside a run)."""
    import sys
    import types

    import mxlpy  # noqa: F401

    for name, mod in list(sys.modules.items()):
        if name.startswith("mxlpy") and type(mod) is types.ModuleType and "tqdm" in mod.__dict__:
            try:
                mod.tqdm = _SilentTqdm
            except Exception:  # noqa: BLE001
                pass
    logging.disable(logging.CRITICAL)
