"""Core data structures: traces, canonical forms, comparisons, violations, machines."""

from __future__ import annotations

import dataclasses
import hashlib
import json
import math
from collections import Counter
from typing import Any


class HarnessError(Exception):
    """The simulator (not the system under test) is at fault: exit 2, never a VIOLATION."""


# --------------------------------------------------------------------------
# canonical forms
# --------------------------------------------------------------------------
def fnum(x: Any) -> Any:
    """Canonical, JSON-able, repr-exact form of a number."""
    try:
        xf = float(x)
    except (TypeError, ValueError):
        return f"<{type(x).__name__}>"
    if math.isnan(xf):
        return "nan"
    if math.isinf(xf):
        return "inf" if xf > 0 else "-inf"
    return repr(xf)


def canon(obj: Any, _depth: int = 0) -> Any:
    """Generic canonical (JSON-able, hash-order independent) form of a value.

    Dataclasses -> {field: canon}, callables -> their __name__, pandas/numpy -> lists
    with labels.  Never contains addresses, pids or paths.
    """
    import numpy as np
    import pandas as pd

    if _depth > 12:
        return "<deep>"
    d = _depth + 1
    if obj is None or isinstance(obj, (bool, str)):
        return obj
    if isinstance(obj, (int, float, np.integer, np.floating)):
        return fnum(obj)
    if isinstance(obj, pd.DataFrame):
        return {
            "__df__": [canon(i, d) for i in obj.index.tolist()],
            "cols": [canon(c, d) for c in obj.columns.tolist()],
            "vals": [[fnum(v) for v in row] for row in obj.to_numpy().tolist()],
        }
    if isinstance(obj, pd.Series):
        return {
            "__ser__": [canon(i, d) for i in obj.index.tolist()],
            "vals": [canon(v, d) for v in obj.tolist()],
        }
    if isinstance(obj, pd.Index):
        return [canon(i, d) for i in obj.tolist()]
    if isinstance(obj, np.ndarray):
        return [canon(v, d) for v in obj.tolist()]
    if dataclasses.is_dataclass(obj) and not isinstance(obj, type):
        out = {"__cls__": type(obj).__name__}
        for f in dataclasses.fields(obj):
            try:
                out[f.name] = canon(getattr(obj, f.name), d)
            except AttributeError:
                out[f.name] = "<unset>"
        return out
    if isinstance(obj, dict):
        return {"__dict__": [[canon(k, d), canon(v, d)] for k, v in obj.items()]}
    if isinstance(obj, (list, tuple)):
        return [canon(v, d) for v in obj]
    if isinstance(obj, (set, frozenset)):
        return {"__set__": sorted(json.dumps(canon(v, d), sort_keys=True) for v in obj)}
    if callable(obj):
        return f"fn:{getattr(obj, '__name__', type(obj).__name__)}"
    return f"<{type(obj).__name__}>"


def digest_of(obj: Any) -> str:
    return hashlib.sha256(
        json.dumps(obj, sort_keys=True, default=str).encode()
    ).hexdigest()[:16]


# --------------------------------------------------------------------------
# outcomes and comparison
# --------------------------------------------------------------------------
def outcome(fn, *args, **kwargs) -> tuple[str, Any]:  # noqa: ANN001
    """Run fn; return ("ok", value) or ("exc", exception class name)."""
    try:
        return ("ok", fn(*args, **kwargs))
    except HarnessError:
        raise
    except Exception as e:  # noqa: BLE001
        return ("exc", type(e).__name__)


def _num_close(a: float, b: float, rtol: float, atol: float) -> bool:
    if math.isnan(a) or math.isnan(b):
        return math.isnan(a) and math.isnan(b)
    if math.isinf(a) or math.isinf(b):
        return a == b
    return abs(a - b) <= atol + rtol * max(abs(a), abs(b))


def diff_values(a: Any, b: Any, rtol: float = 1e-12, atol: float = 0.0) -> str | None:
    """Structural, label-aware, NaN-aware comparison.  None if equal, else a short
    normalised description of the first difference kind ("labels", "value", "type")."""
    import numpy as np
    import pandas as pd

    if isinstance(a, pd.DataFrame) or isinstance(b, pd.DataFrame):
        if not (isinstance(a, pd.DataFrame) and isinstance(b, pd.DataFrame)):
            return "type"
        if a.shape != b.shape:
            return "shape"
        if list(a.columns) != list(b.columns):
            return "labels"
        ia, ib = a.index.tolist(), b.index.tolist()
        if diff_values(ia, ib, rtol, atol) is not None:
            return "index"
        av = a.to_numpy(dtype=float, na_value=np.nan)
        bv = b.to_numpy(dtype=float, na_value=np.nan)
        for x, y in zip(av.ravel().tolist(), bv.ravel().tolist(), strict=True):
            if not _num_close(x, y, rtol, atol):
                return "value"
        return None
    if isinstance(a, pd.Series) or isinstance(b, pd.Series):
        if not (isinstance(a, pd.Series) and isinstance(b, pd.Series)):
            return "type"
        if len(a) != len(b):
            return "shape"
        if diff_values(a.index.tolist(), b.index.tolist(), rtol, atol) is not None:
            return "labels"
        return diff_values(a.tolist(), b.tolist(), rtol, atol)
    if isinstance(a, np.ndarray):
        a = a.tolist()
    if isinstance(b, np.ndarray):
        b = b.tolist()
    if isinstance(a, dict) or isinstance(b, dict):
        if not (isinstance(a, dict) and isinstance(b, dict)):
            return "type"
        if list(a.keys()) != list(b.keys()):
            if set(a.keys()) != set(b.keys()):
                return "labels"
            return "order"
        for k in a:
            d = diff_values(a[k], b[k], rtol, atol)
            if d is not None:
                return d
        return None
    if isinstance(a, (list, tuple)) or isinstance(b, (list, tuple)):
        if not (isinstance(a, (list, tuple)) and isinstance(b, (list, tuple))):
            return "type"
        if len(a) != len(b):
            return "shape"
        for x, y in zip(a, b, strict=True):
            d = diff_values(x, y, rtol, atol)
            if d is not None:
                return d
        return None
    if isinstance(a, (set, frozenset)) or isinstance(b, (set, frozenset)):
        return None if a == b else "labels"
    if isinstance(a, bool) or isinstance(b, bool) or isinstance(a, str) or isinstance(b, str):
        return None if a == b else "value"
    if a is None or b is None:
        return None if a is b else "value"
    if isinstance(a, (int, float, np.integer, np.floating)) and isinstance(
        b, (int, float, np.integer, np.floating)
    ):
        return None if _num_close(float(a), float(b), rtol, atol) else "value"
    # pandas Timedelta etc.
    try:
        return None if a == b else "value"
    except Exception:  # noqa: BLE001
        return "type"


def diff_outcomes(a: tuple[str, Any], b: tuple[str, Any], rtol: float = 1e-12, atol: float = 0.0) -> str | None:
    if a[0] != b[0]:
        return "exception_vs_value"
    if a[0] == "exc":
        return None if a[1] == b[1] else "exception_class"
    return diff_values(a[1], b[1], rtol, atol)


# --------------------------------------------------------------------------
# violations
# --------------------------------------------------------------------------
def violation(prop: str, check: str, signature: list[str], op_index: int, detail: str) -> dict:
    return {
        "property": prop,
        "check": check,
        "signature": [str(s) for s in signature],
        "op_index": int(op_index),
        "detail": detail[:400],
    }


def sig_key(sig: list[str]) -> str:
    return "/".join(sig)


def sig_matches(pattern: list[str], sig: list[str]) -> bool:
    """Pattern elements: literal, "*" (any one element), trailing "**" (any rest)."""
    for i, p in enumerate(pattern):
        if p == "**":
            return True
        if i >= len(sig):
            return False
        if p != "*" and p != sig[i]:
            return False
    return len(pattern) == len(sig)


# --------------------------------------------------------------------------
# trace
# --------------------------------------------------------------------------
class Trace:
    """Event list with rolling sha256; draws nothing, reads no clock."""

    def __init__(self) -> None:
        self._h = hashlib.sha256()
        self.n = 0
        self.events: list[Any] = []
        self.keep = False

    def add(self, *event: Any) -> None:
        s = json.dumps(event, sort_keys=True, default=str)
        self._h.update(s.encode())
        self._h.update(b"\n")
        self.n += 1
        if self.keep:
            self.events.append(event)

    def digest(self) -> str:
        return self._h.hexdigest()[:20]


# --------------------------------------------------------------------------
# run result
# --------------------------------------------------------------------------
@dataclasses.dataclass
class RunResult:
    case: dict  # complete replayable record
    violations: list[dict] = dataclasses.field(default_factory=list)
    digest: str = ""
    counters: Counter = dataclasses.field(default_factory=Counter)
    shape: str = ""  # hashable description of the history shape
    nontrivial: bool = False
    sim_time: float = 0.0  # simulated (model / virtual) time covered
    steps: int = 0  # ops executed

    def slim(self, keep_case: bool) -> dict:
        return {
            "case": self.case if (keep_case or self.violations) else None,
            "seed": self.case.get("seed"),
            "violations": self.violations,
            "digest": self.digest,
            "counters": dict(self.counters),
            "shape": self.shape,
            "nontrivial": self.nontrivial,
            "sim_time": self.sim_time,
            "steps": self.steps,
        }


class Machine:
    """Base class.  A machine owns generation, execution, oracle and simplification."""

    name = "machine"
    properties: tuple[str, ...] = ()
    level = "exploration"
    #: default number of runs per tier
    runs = {"quick": 200, "thorough": 5000}
    #: per-run watchdog (seconds)
    run_timeout = 60.0
    rule = ""
    real_components: list[str] = []
    stub_components: list[str] = []
    assumptions: list[str] = []

    def __init__(self, prop: str) -> None:
        self.prop = prop

    # -- to implement --------------------------------------------------
    def run_seed(self, seed: int, tier: str, known: list[list[str]]) -> RunResult:
        raise NotImplementedError

    def replay(self, case: dict, known: list[list[str]]) -> RunResult:
        raise NotImplementedError

    def simplifications(self, case: dict):  # noqa: ANN201
        """Yield simpler variants of `case` (besides ddmin over case['ops'])."""
        return iter(())

    def setup(self, tier: str) -> None:
        """Called once in the parent before forking workers."""

    def teardown(self) -> None:
        pass

    def extra_evidence(self, tier: str) -> dict:
        return {}


def replay_isolated(machine: Machine, case: dict, known: list[list[str]]) -> RunResult:
    """machine.replay, in a pristine forked child when the machine asks for per-run isolation."""
    if not getattr(machine, "isolate_runs", False):
        return machine.replay(case, known)
    import os
    import pickle

    r, w = os.pipe()
    pid = os.fork()
    if pid == 0:
        code = 0
        try:
            os.close(r)
            res = machine.replay(case, known)
            with os.fdopen(w, "wb") as f:
                pickle.dump(res, f)
        except BaseException:  # noqa: BLE001
            code = 3
        finally:
            os._exit(code)
    os.close(w)
    with os.fdopen(r, "rb") as f:
        data = f.read()
    _, status = os.waitpid(pid, 0)
    if os.waitstatus_to_exitcode(status) != 0 or not data:
        raise HarnessError("isolated replay child failed")
    return pickle.loads(data)  # noqa: S301
