"""One integer decides everything: labelled, independent PRNG sub-streams."""

from __future__ import annotations

import hashlib
import random


def derive(seed: int, *labels: object) -> int:
    """Derive a 64-bit integer from a seed and labels (stable across processes)."""
    h = hashlib.sha256(repr((int(seed), *[str(x) for x in labels])).encode()).digest()
    return int.from_bytes(h[:8], "big")


class SimRng:
    """Named sub-streams of random.Random; a draw in one stream never shifts another."""

    def __init__(self, seed: int) -> None:
        self.seed = int(seed)
        self._streams: dict[str, random.Random] = {}

    def __call__(self, label: str) -> random.Random:
        r = self._streams.get(label)
        if r is None:
            r = self._streams[label] = random.Random(derive(self.seed, label))
        return r

    # conveniences -----------------------------------------------------
    def chance(self, label: str, p: float) -> bool:
        return self(label).random() < p

    def choice(self, label: str, seq):  # noqa: ANN001, ANN201
        seq = list(seq)
        return seq[self(label).randrange(len(seq))]

    def weighted(self, label: str, pairs):  # noqa: ANN001, ANN201
        """pairs: list of (item, weight) with weight > 0."""
        pairs = [(i, w) for i, w in pairs if w > 0]
        total = sum(w for _, w in pairs)
        x = self(label).random() * total
        acc = 0.0
        for item, w in pairs:
            acc += w
            if x < acc:
                return item
        return pairs[-1][0]

    def dyadic(self, label: str, lo: int, hi: int, denom: int = 4) -> float:
        """A dyadic rational k/denom with lo*denom <= k <= hi*denom (exact in binary)."""
        return self(label).randint(lo * denom, hi * denom) / denom
