"""C19 — result cache: transparency and crash consistency (DESIGN §4.6).

One history: R0 (no cache) -> R1 (cache, killed at point p) [-> R1' killed again] -> R2 (cache,
must complete and equal R0) -> R3 (cache, equals R0, zero invocations).  Every run is a
fresh fork of the warm simulator process; only the scratch cache directory survives.
"""

from __future__ import annotations

import copy
import os
import pickle
import shutil
from collections import Counter
from functools import partial
from pathlib import Path

from simkit import crashfs, simpool
from simkit.core import HarnessError, Machine, RunResult, Trace, canon, diff_values, digest_of, sig_matches, violation
from simkit.fnlib import cache_work
from simkit.rng import SimRng

_COUNTER = [0]


def _scratch() -> Path:
    base = Path(os.environ.get("SIMKIT_SCRATCH") or "/tmp") / "crash"  # noqa: S108
    _COUNTER[0] += 1
    d = base / f"{os.getpid()}-{_COUNTER[0]}"
    d.mkdir(parents=True, exist_ok=True)
    return d


# --------------------------------------------------------------------------
# workloads
# --------------------------------------------------------------------------
def logged_tc_worker(model, time_points, *, integrator, y0, logpath):  # noqa: ANN001, ANN201
    from mxlpy import scan

    fd = os.open(logpath, os.O_WRONLY | os.O_CREAT | os.O_APPEND, 0o644)
    os.write(fd, b"row\n")
    os.close(fd)
    return scan._time_course_worker(model, time_points=time_points, integrator=integrator, y0=y0)  # noqa: SLF001


def logged_protocol_worker(model, protocol, *, integrator, y0, time_points_per_step=10, logpath):  # noqa: ANN001, ANN201
    from mxlpy import scan

    fd = os.open(logpath, os.O_WRONLY | os.O_CREAT | os.O_APPEND, 0o644)
    os.write(fd, b"row\n")
    os.close(fd)
    return scan._protocol_worker(model, protocol, integrator=integrator, y0=y0, time_points_per_step=time_points_per_step)  # noqa: SLF001


def logged_ss_worker(model, *, rel_norm, integrator, y0, logpath):  # noqa: ANN001, ANN201
    from mxlpy import scan

    fd = os.open(logpath, os.O_WRONLY | os.O_CREAT | os.O_APPEND, 0o644)
    os.write(fd, b"row\n")
    os.close(fd)
    return scan._steady_state_worker(model, rel_norm=rel_norm, integrator=integrator, y0=y0)  # noqa: SLF001


def _chain_model():  # noqa: ANN202
    from mxlpy import Model

    from simkit import fnlib

    m = Model()
    m.add_parameters({"k0": 1.0, "k1": 0.5, "k2": 0.25})
    m.add_variables({"x": 1.0, "y": 0.0})
    m.add_reaction("v0", fnlib.const, args=["k0"], stoichiometry={"x": 1})
    m.add_reaction("v1", fnlib.ma1, args=["x", "k1"], stoichiometry={"x": -1, "y": 1})
    m.add_reaction("v2", fnlib.ma1, args=["y", "k2"], stoichiometry={"y": -1})
    return m


def _key(k):  # noqa: ANN001, ANN202
    return tuple(k) if isinstance(k, list) else k


# A user-supplied cache: own file naming, own (extension-sensitive) writer and reader.  Like
# numpy.save, the writer appends its extension when the path it is handed lacks it - which
# only matters if the library hands it another path than tmp_dir / name_fn(key).
def dat_name(k) -> str:  # noqa: ANN001
    return f"res_{k}.dat"


def dat_save(file, data) -> None:  # noqa: ANN001
    path = os.fspath(file)
    if not path.endswith(".dat"):
        path += ".dat"
    with open(path, "wb") as fp:
        pickle.dump(data, fp)


def dat_load(file):  # noqa: ANN001, ANN201
    with open(os.fspath(file), "rb") as fp:
        return pickle.load(fp)  # noqa: S301


def run_workload(wl: dict, cache_dir: Path | None, logpath: str, *, mutate: bool = False, timeout: float | None = None):  # noqa: ANN201
    """Execute the workload once in this process; returns a canonical result structure.
    mutate=True: afterwards the caller changes the returned results in place (as a user
    normalising a frame would)."""
    import numpy as np
    import pandas as pd
    from mxlpy import scan
    from mxlpy.parallel import Cache, parallelise

    cache = None
    if cache_dir is not None:
        cache = Cache(tmp_dir=crashfs.CrashPath(cache_dir))
        if wl.get("cache_style") == "dat":
            cache = Cache(tmp_dir=crashfs.CrashPath(cache_dir), name_fn=dat_name, save_fn=dat_save, load_fn=dat_load)
    kind = wl["kind"]
    if kind == "parallelise":
        inputs = [(_key(o["key"]), (logpath, _key(o["key"]), o["size"])) for o in wl["ops"]]
        kw = {} if timeout is None else {"timeout": timeout}
        res = parallelise(cache_work, inputs, cache=cache, parallel=wl["parallel"], max_workers=wl["W"], disable_tqdm=True, **kw)
        out = [[canon(k), digest_of(canon(v["tag"])), v["n"], digest_of(v["blob"].hex())] for k, v in res]
        if mutate:
            for _, v in res:
                v["n"] = -1
                v["tag"] = "mutated by the caller"
        return out
    if kind in ("scan_time_course", "scan_steady_state", "mc_time_course", "scan_protocol"):
        vals = [o["value"] for o in wl["ops"]]
        idx = [_key(o["key"]) for o in wl["ops"]]
        if idx and all(isinstance(k, tuple) for k in idx) and len({len(k) for k in idx}) == 1:
            index = pd.MultiIndex.from_tuples(idx)
        else:
            index = pd.Index(idx, dtype=object, tupleize_cols=False)  # mixed labels: plain object index
        to_scan = pd.DataFrame({"k1": vals}, index=index)
        if kind == "mc_time_course":
            from mxlpy import mc

            r = mc.time_course(
                _chain_model(), time_points=np.array([0.0, 0.5, 1.0]), mc_to_scan=to_scan, cache=cache, max_workers=wl["W"],
                worker=partial(logged_tc_worker, logpath=logpath),
            )
        elif kind == "scan_protocol":
            from mxlpy import make_protocol

            r = scan.protocol(
                _chain_model(), to_scan=to_scan, protocol=make_protocol([(0.5, {"k2": 0.5}), (0.5, {"k2": 1.0})]), time_points_per_step=2,
                cache=cache, parallel=wl["parallel"], worker=partial(logged_protocol_worker, logpath=logpath),
            )
        elif kind == "scan_time_course":
            r = scan.time_course(
                _chain_model(), to_scan=to_scan, time_points=np.array([0.0, 0.5, 1.0]), cache=cache,
                parallel=wl["parallel"], worker=partial(logged_tc_worker, logpath=logpath),
            )
        else:
            r = scan.steady_state(
                _chain_model(), to_scan=to_scan, cache=cache, parallel=wl["parallel"],
                worker=partial(logged_ss_worker, logpath=logpath),
            )
        out = [canon(r.variables.round(9)), canon(r.fluxes.round(9))]
        if mutate:
            raws = r.raw_results.values() if isinstance(r.raw_results, dict) else r.raw_results
            for sim in raws:
                for frame in sim.raw_variables:
                    frame *= 2.0
        return out
    raise HarnessError(f"unknown workload {kind}")


def session_run(wl: dict, base: Path) -> dict:
    """Several cached runs inside ONE process (forked child), with the caller mutating the
    returned results in place and the cache directory being wiped and reused for a changed
    computation in between: anything remembered in memory instead of read from disk shows."""
    r, w = os.pipe()
    pid = os.fork()
    if pid == 0:
        code = 0
        try:
            os.close(r)
            if wl["parallel"]:
                simpool.install(simpool.PoolPlan(workers=wl["W"], seed=wl.get("pool_seed", 0)))
            out: dict = {"steps": []}
            d = base / "sess"
            log = str(base / "log-sess")

            def variant(k: int) -> dict:
                w2 = copy.deepcopy(wl)
                for o in w2["ops"]:
                    if "size" in o:
                        o["size"] = o["size"] + 3 * k
                    else:
                        o["value"] = o["value"] + 0.5 * k
                return w2

            try:
                if wl.get("session_interrupt") is not None:
                    # an interruption INSIDE this process while a result is being written
                    # (KeyboardInterrupt-like: the writer dies, the session - and its pid - go on)
                    crashfs.PLAN = crashfs.KillPlan(kind="byte", at=int(wl["session_interrupt"]), file=0, whole=False)
                    try:
                        run_workload(variant(0), d, log)
                        out["interrupted"] = "not_reached"
                    except crashfs.SimWorkerDeath:
                        out["interrupted"] = "yes"
                    except Exception as e:  # noqa: BLE001
                        out["interrupted"] = type(e).__name__
                    finally:
                        crashfs.PLAN = crashfs.KillPlan()
                for step, (k, wipe, mutate) in enumerate([(0, False, False), (0, False, True), (0, False, False), (1, True, False), (1, False, False)]):
                    if wipe:
                        shutil.rmtree(d, ignore_errors=True)
                    wk = variant(k)
                    ref = run_workload(wk, None, log)
                    res = run_workload(wk, d, log, mutate=mutate)
                    out["steps"].append({"k": k, "wipe": wipe, "mutated_before_next": mutate, "equal": res == ref})
                out["status"] = "ok"
            except Exception as e:  # noqa: BLE001
                out["status"] = "exc"
                out["exc"] = type(e).__name__
            with os.fdopen(w, "wb") as f:
                pickle.dump(out, f)
        except BaseException:  # noqa: BLE001
            code = 3
        finally:
            os._exit(code)
    os.close(w)
    with os.fdopen(r, "rb") as f:
        data = f.read()
    _, status = os.waitpid(pid, 0)
    if os.waitstatus_to_exitcode(status) != 0 or not data:
        raise HarnessError("session child failed")
    return pickle.loads(data)  # noqa: S301


def _count_log(logpath: str) -> int:
    try:
        with open(logpath, "rb") as f:
            return f.read().count(b"\n")
    except FileNotFoundError:
        return 0


def forked_run(wl: dict, cache_dir: Path | None, logpath: str, kill: dict | None) -> dict:
    """Run the workload in a forked child.  Returns {status, result|exc, lines, bytes}."""
    r, w = os.pipe()
    pid = os.fork()
    if pid == 0:
        code = 0
        try:
            os.close(r)
            plan = crashfs.KillPlan(
                kind=(kill or {}).get("kind", "none"),
                at=(kill or {}).get("at", -1),
                file=(kill or {}).get("file", 0),
                whole=(kill or {}).get("whole", True),
                scope=(kill or {}).get("scope", wl.get("scope", "parallel")),
            )
            if wl.get("cross_device") and cache_dir is not None:
                import tempfile

                tdir = Path(logpath).parent / "tmpdir"
                tdir.mkdir(exist_ok=True)
                tempfile.tempdir = str(tdir)
                Path(cache_dir).mkdir(parents=True, exist_ok=True)
                crashfs.simulate_cross_device(str(cache_dir))
                plan.trace_shutil = True
            ls = (kill or {}).get("lockstep")
            pplan = None
            if wl["parallel"]:
                pplan = simpool.PoolPlan(workers=wl["W"], seed=wl.get("pool_seed", 0))
                if ls is not None:
                    pplan.lockstep = True
                    pplan.seed = int(ls.get("seed", 0))
                    pplan.timeout_tasks = tuple(ls.get("timeouts", ()))
                    pplan.kill_at_yield = int(kill.get("at", -1)) if kill.get("kind") == "yield" else -1
                    pplan.script = ls.get("script")
                    pplan.tparams = ls.get("tparams")
                    if kill.get("kind") == "parent_only":
                        pplan.kill_at_yield = int(kill.get("at", -1))
                        pplan.parent_only = True
                    from simkit import lockstep as _ls

                    _ls.install_worker_pids()
                simpool.install(pplan)
            out: dict
            crashfs.arm(plan)
            try:
                try:
                    res = run_workload(wl, cache_dir, logpath, timeout=(60.0 if ls is not None and ls.get("timeouts") else None))
                except BaseException as e:  # noqa: BLE001
                    if type(e).__name__ != "ParentDied":
                        raise
                    # only the parent was killed.  The user starts the run again at once, while the
                    # orphaned workers of the first one are still finishing their tasks
                    from simkit import lockstep as _ls

                    plan2 = simpool.PoolPlan(workers=wl["W"], seed=int(ls.get("seed", 0)) + 1)
                    plan2.lockstep = True
                    plan2.adopt_orphans = True
                    simpool.install(plan2)
                    res = run_workload(wl, cache_dir, logpath)
                    pplan = plan2
                    out_extra = {"overlapped_with_orphans": len(_ls.ORPHANS)}
                else:
                    out_extra = {}
                crashfs.disarm()
                out = {"status": "ok", "result": res, **out_extra}
            except crashfs.SimWorkerDeath:
                crashfs.disarm()
                out = {"status": "exc", "exc": "SimWorkerDeath"}
            except Exception as e:  # noqa: BLE001
                crashfs.disarm()
                out = {"status": "exc", "exc": type(e).__name__}
            out["lines"] = plan.lines
            out["bytes"] = list(plan.bytes_by_file)
            out["fired"] = plan.fired
            if pplan is not None and pplan.lockstep:
                out["yields"] = pplan.yields
                out["timed_out"] = list(pplan.timed_out)
                out["max_inflight"] = max([r.get("max_inflight", 0) for r in pplan.record if r.get("lockstep")] or [0])
                out["schedule"] = digest_of([r.get("schedule") for r in pplan.record if r.get("lockstep")])
                first = next((r for r in pplan.record if r.get("lockstep")), None)
                if first is not None:
                    out["script"] = first["choices"]
                    out["tparams"] = first["tparams"]
            with os.fdopen(w, "wb") as f:
                pickle.dump(out, f)
        except BaseException:  # noqa: BLE001
            code = 3
        finally:
            os._exit(code)
    os.close(w)
    with os.fdopen(r, "rb") as f:
        data = f.read()
    _, status = os.waitpid(pid, 0)
    ec = os.waitstatus_to_exitcode(status)
    if ec == crashfs.EXIT_KILLED:
        return {"status": "killed"}
    if ec != 0 or not data:
        raise HarnessError(f"crash child exit code {ec}")
    return pickle.loads(data)  # noqa: S301


# --------------------------------------------------------------------------
# generation
# --------------------------------------------------------------------------
def gen_workload(rng: SimRng, tier: str) -> dict:
    r = rng("workload")
    kind = rng.weighted("workload", [("parallelise", 6), ("scan_time_course", 2), ("scan_steady_state", 1), ("mc_time_course", 1), ("scan_protocol", 1)])
    n = r.randint(1, 5)
    keystyle = r.choice(["int", "str", "tuple", "int", "mixed", "near", "str", "tuple", "int", "near", "collide"])
    # families of DISTINCT keys that differ only in punctuation / whitespace / sign / case / grouping
    near_pool = r.choice([
        ["a b", "a_b", "a-b", "a.b", "A b", "a  b"],
        [[1.0, -2.0], [1.0, 2.0], [-1.0, 2.0], [1, 2.0], [12, 0.0]],
        [1.5, -1.5, 15, "1.5", [1, 5]],
        [[1, 5.3], [1.5, 3], [15, 3], [1, 53]],
        ["k=1", "k 1", "k:1", "k1", "K=1"],
    ])
    r.shuffle(near_pool)
    ops = []
    used = set()
    used_eq: set = set()
    for i in range(n):
        if keystyle == "int":
            k = r.choice([i, i * 3 + 1, -i])
        elif keystyle == "str":
            k = r.choice(["a", "b", "run 1", "x.y", "k=1", "é"]) + str(i)
        elif keystyle == "tuple":
            k = [r.randint(0, 2), i]
        elif keystyle == "near":
            k = near_pool[i % len(near_pool)] if i < len(near_pool) else f"n{i}"
        elif keystyle == "collide":
            # distinct keys whose str() coincide (1 and "1"): its own sub-check
            k = (i // 2) if i % 2 == 0 else str(i // 2)
        else:
            k = r.choice([i, f"s{i}", 2.5 + i])
        # keys must be pairwise distinct AS PYTHON OBJECTS ((1, 2.0) == (1.0, 2.0)!)
        if _key(k) in used_eq or repr(k) in used:
            k = f"u{i}"
        used.add(repr(k))
        used_eq.add(_key(k))
        if kind != "parallelise" and isinstance(k, list) and keystyle in ("near", "mixed", "collide") and any(not isinstance(o["key"], list) for o in ops):
            k = f"t{i}"  # scan row labels: pandas cannot concatenate frames keyed by a mix of tuples and scalars
        if kind != "parallelise" and not isinstance(k, list) and any(isinstance(o["key"], list) for o in ops):
            k = [9, i]
        if kind == "parallelise":
            size = r.choice([0, 1, 10, 100, 1000, 8191, 8192, 8193, 20000, 70000]) if r.random() < 0.5 else r.randint(0, 3000)
            ops.append({"key": k, "size": size})
        else:
            ops.append({"key": k, "value": r.randint(1, 8) / 4})
    parallel = r.random() < 0.45 or kind == "mc_time_course"
    return {
        "kind": kind,
        "ops": ops,
        "parallel": parallel,
        "W": r.choice([1, 2, 3, 5, 8]),
        "pool_seed": r.randrange(10**6),
        "scope": "parallel" if kind == "parallelise" or r.random() < 0.6 else "mxlpy",
        "session_interrupt": r.choice([None, None, 0, 1, 5, 40]),
        "lockstep": _gen_lockstep(r, kind, n, tier) if parallel else None,
        # a user-supplied cache (own naming / writer / reader): transparency and no-recompute are
        # demanded of it; crash consistency is the writer's own business, so no kills there
        "cache_style": "dat" if r.random() < 0.12 else "default",
        # the cache directory on another file system than the temp directory / working directory
        "cross_device": r.random() < 0.3,
    }


def _gen_lockstep(r, kind: str, n: int, tier: str) -> dict | None:  # noqa: ANN001
    """Workers in flight together (simkit/lockstep.py); per-task timeouts only where the
    public API lets the caller pass one (parallelise)."""
    if r.random() < 0.2:
        return None
    timeouts: list[int] = []
    if kind == "parallelise" and r.random() < 0.6:
        timeouts = sorted(r.sample(range(n), r.randint(1, max(1, min(2, n - 1)))))
    return {"seed": r.randrange(10**6), "timeouts": timeouts, "tries": 4 if tier == "quick" else 12}


# --------------------------------------------------------------------------
# executor
# --------------------------------------------------------------------------
class History:
    def __init__(self, prop: str, wl: dict, known: list[list[str]]) -> None:
        self.prop = prop
        self.wl = wl
        self.known = known
        self.violations: list[dict] = []
        self.counters: Counter = Counter()
        self.trace = Trace()
        self.base = _scratch()
        self.ref = None
        self.n_inv_ref = 0

    def close(self) -> None:
        shutil.rmtree(self.base, ignore_errors=True)

    def keyclass(self) -> str:
        keys = [_key(o["key"]) for o in self.wl["ops"]]
        if len({str(k) for k in keys}) < len(keys):
            return "keys:same_str"
        return "keys:distinct_str"

    def _viol(self, check: str, sig: list[str], detail: str, idx: int = 0) -> None:
        if self.keyclass() == "keys:same_str":
            # distinct keys with equal str(): its own sub-check, so that a decision about it
            # cannot hide anything else
            sig = ["key_str_collision", check, self.wl["kind"]]
            detail = "distinct keys with equal str() share one cache file: " + detail
        self.violations.append(violation(self.prop, check, sig, idx, detail))

    def reference(self) -> None:
        log = str(self.base / "log-ref")
        out = forked_run(self.wl, None, log, None)
        if out["status"] != "ok":
            raise HarnessError(f"reference run without cache failed: {out}")
        self.ref = out["result"]
        self.n_inv_ref = _count_log(log)
        self.trace.add("R0", digest_of(self.ref), self.n_inv_ref)

    def dry(self) -> dict:
        """Uninterrupted cached run in a child: measures line events and file sizes, and
        checks transparency (cached == uncached; second cached run recomputes nothing)."""
        d = self.base / "dry"
        log = str(self.base / "log-dry")
        out = forked_run(self.wl, d, log, {"kind": "none"})
        mode = "pool" if self.wl["parallel"] else "seq"
        if out["status"] != "ok":
            self._viol("cached_run_failed", ["cached_run_failed", self.wl["kind"], mode, out.get("exc", "?")], f"uninterrupted run with cache raised {out.get('exc')}")
            return out
        if out["result"] != self.ref:
            self._viol("cache_not_transparent", ["cache_not_transparent", self.wl["kind"], mode, "first_run"], "uninterrupted run with cache differs from run without cache")
        n1 = _count_log(log)
        out2 = forked_run(self.wl, d, log, {"kind": "none"})
        if out2["status"] != "ok":
            self._viol("cached_run_failed", ["cached_run_failed", self.wl["kind"], mode, "second:" + out2.get("exc", "?")], "second run with cache raised")
        else:
            if out2["result"] != self.ref:
                self._viol("cache_not_transparent", ["cache_not_transparent", self.wl["kind"], mode, "second_run"], "repeated run with cache differs from run without cache")
            if _count_log(log) != n1:
                self._viol("recomputed", ["recomputed", self.wl["kind"], mode, "after_complete_run"], f"repeated run recomputed {_count_log(log) - n1} result(s)")
        self.trace.add("dry", out["lines"], out["bytes"], n1)
        shutil.rmtree(d, ignore_errors=True)
        return out

    def session_history(self) -> None:
        mode = "pool" if self.wl["parallel"] else "seq"
        out = session_run(self.wl, self.base)
        self.trace.add("session", out.get("status"), [(st["k"], st["wipe"], st["equal"]) for st in out["steps"]])
        self.counters["in_process_sessions"] += 1
        if out.get("interrupted"):
            self.counters[f"fault_fired:in_process_interrupt:{out['interrupted']}"] += 1
        if out["status"] != "ok":
            why = "after_in_process_interruption" if out.get("interrupted") not in (None, "not_reached") else "plain"
            self._viol("cached_run_failed", ["cached_run_failed", self.wl["kind"], mode, "session:" + out.get("exc", "?"), why], f"a cached run inside a multi-run session raised {out.get('exc')} ({why}: same process, same pid)")
            return
        for i, st in enumerate(out["steps"]):
            if not st["equal"]:
                why = "after_wipe_and_reuse" if st["k"] == 1 else ("after_caller_mutated_results" if i >= 2 else "plain")
                self._viol("cache_not_transparent", ["cache_not_transparent", self.wl["kind"], mode, f"session:{why}"], f"cached run {i} of one process ({why}) differs from the run without cache")
                return

    def lockstep_dry(self, ls: dict) -> dict:
        """Uninterrupted cached runs with the workers genuinely in flight together (and, when
        the plan says so, tasks exceeding the caller's timeout), under `tries` schedules: each
        must not raise and must return what the run without cache returns under the same
        timeouts.  Returns the first schedule's run."""
        first = None
        for j in range(int(ls.get("tries", 1))):
            lsj = {"seed": int(ls["seed"]) + 7919 * j, "timeouts": list(ls.get("timeouts", []))}
            if ls.get("script") is not None:
                lsj.update(script=list(ls["script"]), tparams=dict(ls.get("tparams") or {}))
            nv = len(self.violations)
            out = self._lockstep_one(lsj, j)
            if first is None:
                first = out
            if len(self.violations) > nv:
                # the replay file holds the failing schedule itself (not only its seed), so that it can be shrunk
                self.wl["lockstep"] = dict(lsj, tries=1, **({"script": out["script"], "tparams": out.get("tparams", {})} if out.get("script") is not None else {}))
                break
        return first

    def _lockstep_one(self, ls: dict, j: int) -> dict:
        d = self.base / f"ls-dry{j}"
        kind = self.wl["kind"]
        tmo = "timeouts" if ls.get("timeouts") else "no_timeouts"
        out = forked_run(self.wl, d, str(self.base / f"log-ls{j}"), {"kind": "none", "lockstep": ls})
        self.counters["lockstep_runs"] += 1
        self.trace.add("lockstep", out["status"], out.get("exc"), out.get("schedule"), out.get("timed_out"))
        if out["status"] != "ok":
            # is it the cache?  the same schedule plan without a cache must then succeed
            ref2 = forked_run(self.wl, None, str(self.base / f"log-ls-ref{j}"), {"kind": "none", "lockstep": ls})
            if ref2["status"] == "ok":
                self._viol("cached_run_failed", ["cached_run_failed", kind, "lockstep", out.get("exc", "?"), tmo], f"cached run with workers in flight together ({tmo}: {ls.get('timeouts')}, schedule seed {ls['seed']}) raised {out.get('exc')}; the same run without cache completes")
            else:
                self.counters["lockstep_reference_inconclusive"] += 1
            shutil.rmtree(d, ignore_errors=True)
            return out
        to = out.get("timed_out", [])
        self.counters["fault_fired:task_timeout"] += len(to)
        if out.get("max_inflight", 0) >= 2:
            self.counters["probe:two_or_more_workers_mid_write"] += 1
        if to:
            # reference: the run without cache under the same timeout plan, normalised by which
            # tasks actually ran out of time in each run (that depends on the schedule)
            ref2 = forked_run(self.wl, None, str(self.base / f"log-ls-ref{j}"), {"kind": "none", "lockstep": ls})
            sane = ref2["status"] == "ok" and kind == "parallelise" and ref2["result"] == [e for i, e in enumerate(self.ref) if i not in ref2.get("timed_out", [])]
            if not sane:
                self.counters["lockstep_reference_inconclusive"] += 1
                shutil.rmtree(d, ignore_errors=True)
                return out
            expected = [e for i, e in enumerate(self.ref) if i not in to]
        else:
            expected = self.ref
        if out["result"] != expected:
            self._viol("cache_not_transparent", ["cache_not_transparent", kind, "lockstep", tmo], f"cached run with workers in flight together ({tmo}, schedule seed {ls['seed']}) differs from the run without cache")
        shutil.rmtree(d, ignore_errors=True)
        return out

    def crash_history(self, kills: list[dict], tag: str) -> None:
        d = self.base / f"c-{tag}"
        log = str(self.base / f"log-{tag}")
        mode = "pool" if self.wl["parallel"] else "seq"
        kdesc = "+".join(
            f"{k['kind']}" + ("" if k.get("whole", True) else ":worker") + (":lockstep" if k.get("lockstep") else "") + (":timeouts" if (k.get("lockstep") or {}).get("timeouts") else "")
            for k in kills
        )
        if kills and kills[0].get("kind") == "parent_only":
            # R1 and R2 overlap in time: the parent of R1 is killed, its workers finish their tasks
            # while R2 (same cache directory) is already running
            out = forked_run(self.wl, d, log, kills[0])
            self.counters[f"kill:parent_only:{out['status']}"] += 1
            if out.get("overlapped_with_orphans"):
                self.counters["fault_fired:parent_only_death_orphans_overlap_with_rerun"] += 1
                self.counters["probe:orphans_in_flight"] += int(out["overlapped_with_orphans"])
            self.trace.add("R1||R2", kills[0], out["status"], out.get("exc"), out.get("overlapped_with_orphans"))
            if out["status"] != "ok":
                self._viol("rerun_failed", ["rerun_failed", self.wl["kind"], "lockstep", "parent_only+orphans", out.get("exc", "?")], f"a rerun started while the orphaned workers of a killed parent were still writing raised {out.get('exc')}")
                return
            if out["result"] != self.ref:
                self._viol("rerun_wrong_result", ["rerun_wrong_result", self.wl["kind"], "lockstep", "parent_only+orphans"], "a rerun that overlapped with the orphaned workers of a killed parent returned a result that differs from the run without cache")
                return
            n_r2 = _count_log(log)
            out3 = forked_run(self.wl, d, log, {"kind": "none"})
            if out3["status"] != "ok":
                self._viol("rerun_failed", ["rerun_failed", self.wl["kind"], "lockstep", "parent_only+orphans", "third:" + out3.get("exc", "?")], "the run after the overlapped rerun raised")
            elif out3["result"] != self.ref:
                self._viol("rerun_wrong_result", ["rerun_wrong_result", self.wl["kind"], "lockstep", "parent_only+orphans", "third"], "the run after the overlapped rerun differs from the run without cache")
            elif _count_log(log) != n_r2:
                self._viol("recomputed", ["recomputed", self.wl["kind"], "lockstep", "after_overlapped_rerun"], "the run after a completed rerun recomputed results")
            shutil.rmtree(d, ignore_errors=True)
            return
        for k in kills:
            out = forked_run(self.wl, d, log, k)
            self.counters[f"kill:{k['kind']}:{out['status']}"] += 1
            if out["status"] == "killed":
                self.counters[f"fault_fired:{k['kind']}" + ("" if k.get("whole", True) else ":worker_only")] += 1
            elif out.get("fired"):
                self.counters[f"fault_fired:{k['kind']}:worker_only"] += 1
            if out.get("timed_out"):
                self.counters["fault_fired:task_timeout"] += len(out["timed_out"])
            if out["status"] == "exc" and k.get("lockstep") and k.get("whole", True):
                # no worker-only fault was injected in this run, yet the cached map raised
                # before (or without) the process kill: the run without cache decides
                ref2 = forked_run(self.wl, None, log + "-ref", {"kind": "none", "lockstep": k["lockstep"]})
                if ref2["status"] == "ok":
                    self._viol("cached_run_failed", ["cached_run_failed", self.wl["kind"], "lockstep", out.get("exc", "?"), "timeouts" if k["lockstep"].get("timeouts") else "no_timeouts"], f"cached run with workers in flight together (plan {k['lockstep']}) raised {out.get('exc')}; the same run without cache completes")
                    return
            self.trace.add("R1", k, out["status"], out.get("exc"), out.get("schedule"))
        # state of the cache directory after the crash(es)
        files = sorted(p.name for p in d.iterdir()) if d.exists() else []
        sizes = [((d / f).stat().st_size) for f in files]
        if any(s == 0 for s in sizes):
            self.counters["probe:zero_length_file_after_kill"] += 1
        if sum(1 for f in files if f.endswith(".tmp")) >= 2:
            self.counters["probe:two_or_more_temporaries_after_kill"] += 1
        self.trace.add("disk", len(files), sorted(sizes))
        n_before = _count_log(log)
        out2 = forked_run(self.wl, d, log, {"kind": "none"})
        if out2["status"] != "ok":
            self._viol("rerun_failed", ["rerun_failed", self.wl["kind"], mode, kdesc, out2.get("exc", "?")], f"rerun after kill {kills} raised {out2.get('exc')}; cache dir held {len(files)} file(s) of sizes {sorted(sizes)}")
            self.trace.add("R2", "exc", out2.get("exc"))
            return
        if out2["result"] != self.ref:
            self._viol("rerun_wrong_result", ["rerun_wrong_result", self.wl["kind"], mode, kdesc], f"rerun after kill {kills} returned a result that differs from the run without cache")
        n_r2 = _count_log(log)
        self.counters["rerun_recomputed_keys"] += n_r2 - n_before
        out3 = forked_run(self.wl, d, log, {"kind": "none"})
        if out3["status"] != "ok":
            self._viol("rerun_failed", ["rerun_failed", self.wl["kind"], mode, kdesc, "third:" + out3.get("exc", "?")], "third run raised")
        else:
            if out3["result"] != self.ref:
                self._viol("rerun_wrong_result", ["rerun_wrong_result", self.wl["kind"], mode, kdesc, "third"], "third run differs from the run without cache")
            if _count_log(log) != n_r2:
                self._viol("recomputed", ["recomputed", self.wl["kind"], mode, "after_rerun"], "run after a completed rerun recomputed results")
        self.trace.add("R2R3", "ok")
        shutil.rmtree(d, ignore_errors=True)

    def stop(self) -> bool:
        return any(not any(sig_matches(k, v["signature"]) for k in self.known) for v in self.violations)


class CrashMachine(Machine):
    name = "crash"
    properties = ("C19",)
    level = "fault_enumeration"
    runs = {"quick": 80, "thorough": 6000}
    budget = {"quick": 300.0}  # wall-clock cap of the exploration (default 150 s): 80 workloads take ~130-170 s
    run_timeout = 1200.0  # a safety net, not a speed test: a thorough workload forks ~10^4 incarnations (100 s idle, several times that on a loaded host)
    rule = (
        "one run = one seeded workload (parallelise with a logging function, or scan.time_course / scan.steady_state / scan.protocol / mc.time_course; "
        "int/str/tuple/mixed keys; result sizes 0..70 kB; sequential or SimPool with W workers) and, for it, the crash "
        "histories R0 no cache -> R1 killed -> [R1' killed again] -> R2 -> R3 for EVERY line-level kill point in "
        "mxlpy/parallel.py (exhaustive when <= 400 points in the quick and <= 800 in the thorough tier, else stratified sample), sampled kill points in all mxlpy frames "
        "for scan workloads, and byte-granular torn writes (offsets 0, 1, middle, flush boundaries +-1, last byte) of every "
        "result file, whole-process and single-worker death; an in-process multi-run session (caller mutates returned results, "
        "wipes and reuses the directory, an interruption inside the process then a rerun under the same pid); and, for pool "
        "workloads, the LOCKSTEP back-end: tasks run in real threads parked at every file-system action of the crash seam, a "
        "seeded driver (the parent's own next() calls) decides who advances, so several workers are mid-write at once while "
        "the parent's handlers run; faults there: per-task timeouts (worker killed where it stands, TimeoutError at its next()) "
        "and whole-process death at every scheduler step (sampled above 14/60 steps), each followed by R2/R3. distinct = distinct (workload kind, mode, #keys, kill kind, "
        "outcome of R1) tuples; non-trivial = at least one kill fired while a result file was open or already written"
    )
    real_components = [
        "mxlpy.parallel.parallelise/_load_or_run/_pickle_save/_pickle_load/Cache", "mxlpy.scan.time_course/steady_state incl. Simulator and Scipy integrator",
        "pickle", "the real file system under a scratch directory", "process death by os._exit in a forked child (no finally, no flush)",
    ]
    stub_components = ["pebble.ProcessPool -> SimPool (in-process, seeded completion order; lockstep back-end: one real thread per task, baton-passing, seeded step choice, pebble timeout semantics checked against the real pool by tools/selftest_stub_fidelity.py)", "os.getpid -> one id per simulated worker (incarnation x slot) inside lockstep task threads", "os.rename / os.replace -> EXDEV for renames into the cache directory from outside in the workloads that put it on another file system", "tqdm -> silent", "cache file objects -> crash-capable writer behind a pathlib subclass"]
    assumptions = [
        "process-kill semantics (what reached the OS survives); power-loss reordering is out of scope",
        "byte-granular torn writes are a superset of what a kill can leave (they include short writes)",
        "one computation per cache directory",
    ]

    def _kill_list(self, rng: SimRng, wl: dict, dry: dict, tier: str) -> tuple[list[list[dict]], bool]:
        r = rng("kills")
        n_lines = dry.get("lines", 0)
        kills: list[list[dict]] = []
        cap = 400 if tier == "quick" else 800
        exhaustive = False
        scope = wl.get("scope", "parallel")
        if n_lines <= cap:
            pts = list(range(n_lines))
            exhaustive = True
        else:
            pts = sorted(set(r.sample(range(n_lines), cap - 20)) | set(range(10)) | set(range(n_lines - 10, n_lines)))
        if scope == "mxlpy":
            # the whole library is traced: sample
            pts = sorted(set(r.sample(pts, min(len(pts), 60 if tier == "quick" else 300))))
            exhaustive = False
        kills += [[{"kind": "line", "at": p, "scope": scope}] for p in pts]
        for fi, size in enumerate(dry.get("bytes", [])):
            offs = {0, 1, size // 2, max(0, size - 1)}
            for b in range(8192, size, 8192):
                offs |= {b - 1, b, b + 1}
            offs = sorted(o for o in offs if 0 <= o < max(size, 1))
            for o in offs:
                kills.append([{"kind": "byte", "file": fi, "at": o, "whole": True}])
                if r.random() < 0.5:
                    kills.append([{"kind": "byte", "file": fi, "at": o, "whole": False}])
        # double crashes
        singles = [k[0] for k in kills]
        for _ in range(min(6, len(singles))):
            a, b = r.choice(singles), r.choice(singles)
            kills.append([a, b])
        return kills, exhaustive

    def _lockstep_kills(self, rng: SimRng, wl: dict, lsdry: dict, tier: str) -> list[list[dict]]:
        r = rng("lockstep_kills")
        ls = {"seed": wl["lockstep"]["seed"], "timeouts": list(wl["lockstep"].get("timeouts", []))}
        n = int(lsdry.get("yields", 0))
        cap = 14 if tier == "quick" else 60
        pts = list(range(n)) if n <= cap else sorted(r.sample(range(n), cap))
        kills: list[list[dict]] = [[{"kind": "none", "lockstep": ls}]]  # timeouts / in-flight run, then plain reruns
        kills += [[{"kind": "yield", "at": p, "lockstep": ls}] for p in pts]
        if not ls.get("timeouts"):
            kills += [[{"kind": "parent_only", "at": p, "lockstep": ls}] for p in (pts if len(pts) <= 8 else sorted(r.sample(pts, 8)))]
        for _ in range(min(3, len(pts))):
            a = {"kind": "yield", "at": r.choice(pts), "lockstep": ls}
            b = {"kind": "yield", "at": r.randrange(max(1, n)), "lockstep": dict(ls, seed=r.randrange(10**6))}
            kills.append([a, b])
        return kills

    def run_seed(self, seed: int, tier: str, known: list[list[str]]) -> RunResult:
        rng = SimRng(seed)
        wl = gen_workload(rng, tier)
        h = History(self.prop, wl, known)
        case = {"seed": seed, "workload": {k: v for k, v in wl.items() if k != "ops"}, "ops": copy.deepcopy(wl["ops"]), "kills": None}
        shapes = set()
        try:
            h.reference()
            dry = h.dry()
            if not h.stop() and dry.get("status") == "ok":
                h.session_history()
            lsdry = None
            if not h.stop() and dry.get("status") == "ok" and wl.get("lockstep") and wl["parallel"]:
                lsdry = h.lockstep_dry(wl["lockstep"])
            if not h.stop() and dry.get("status") == "ok" and wl.get("cache_style", "default") != "default":
                h.counters["workloads_with_user_supplied_cache"] += 1
                if lsdry is not None:
                    h.crash_history([{"kind": "none", "lockstep": {"seed": wl["lockstep"]["seed"], "timeouts": list(wl["lockstep"].get("timeouts", []))}}], "ls-user-cache")
            elif not h.stop() and dry.get("status") == "ok":
                kills, exhaustive = self._kill_list(rng, wl, dry, tier)
                if lsdry is not None and lsdry.get("status") == "ok":
                    kills = self._lockstep_kills(rng, wl, lsdry, tier) + kills
                h.counters["kill_points"] += len(kills)
                h.counters["workloads_exhaustive_line_points" if exhaustive else "workloads_sampled_line_points"] += 1
                for i, ks in enumerate(kills):
                    nv = len(h.violations)
                    h.crash_history(ks, str(i))
                    if len(h.violations) > nv:
                        for v in h.violations[nv:]:
                            v["kills"] = ks
                        case["kills"] = ks
                        if h.stop():
                            break
            elif h.violations:
                case["kills"] = []
        finally:
            h.close()
        case["workload"]["lockstep"] = copy.deepcopy(wl.get("lockstep"))
        return self._result(case, h, shapes)

    def replay(self, case: dict, known: list[list[str]]) -> RunResult:
        wl = dict(case["workload"], ops=case["ops"])
        h = History(self.prop, wl, known)
        try:
            h.reference()
            h.dry()
            if not case.get("kills"):
                h.session_history()
                if wl.get("lockstep") and wl["parallel"]:
                    h.lockstep_dry(wl["lockstep"])
            if case.get("kills"):
                h.crash_history(case["kills"], "r")
        finally:
            h.close()
        return self._result(case, h, set())

    def _result(self, case: dict, h: History, shapes: set) -> RunResult:  # noqa: ARG002
        wl = h.wl
        fired = sum(v for k, v in h.counters.items() if k.startswith("fault_fired"))
        shape = digest_of([wl["kind"], wl["parallel"], len(wl["ops"]), wl.get("scope"), sorted(k for k in h.counters if k.startswith("kill:"))])
        return RunResult(
            case=case, violations=h.violations, digest=h.trace.digest(), counters=h.counters, shape=shape,
            nontrivial=fired > 0, sim_time=0.0, steps=h.trace.n,
        )

    def simplifications(self, case: dict):  # noqa: ANN201
        wl = case["workload"]
        if wl["parallel"]:
            new = copy.deepcopy(case)
            new["workload"]["parallel"] = False
            yield new
            if wl["W"] != 1:
                new = copy.deepcopy(case)
                new["workload"]["W"] = 1
                yield new
        if wl.get("lockstep"):
            new = copy.deepcopy(case)
            new["workload"]["lockstep"] = None
            new["kills"] = [k for k in (new.get("kills") or []) if not k.get("lockstep")] or new.get("kills")
            if not any(k.get("lockstep") for k in (new.get("kills") or [])):
                yield new
            for j in range(len(wl["lockstep"].get("timeouts", []))):
                new = copy.deepcopy(case)
                t = new["workload"]["lockstep"]["timeouts"]
                del t[j]
                for k in new.get("kills") or []:
                    if k.get("lockstep"):
                        k["lockstep"]["timeouts"] = list(t)
                yield new
        if wl.get("cache_style", "default") != "default":
            new = copy.deepcopy(case)
            new["workload"]["cache_style"] = "default"
            yield new
        if wl.get("cross_device"):
            new = copy.deepcopy(case)
            new["workload"]["cross_device"] = False
            yield new
        sc = (wl.get("lockstep") or {}).get("script")
        if sc:
            # shorter explicit schedules (what is cut off falls back to "first candidate")
            cuts = [sc[: len(sc) // 2], sc[:-1], sc[1:]] + [sc[:i] + sc[i + 1 :] for i in range(min(len(sc), 40))]
            for c2 in cuts:
                if c2 != sc:
                    new = copy.deepcopy(case)
                    new["workload"]["lockstep"]["script"] = c2
                    yield new
        ks = case.get("kills") or []
        if len(ks) > 1:
            for i in range(len(ks)):
                new = copy.deepcopy(case)
                new["kills"] = ks[:i] + ks[i + 1 :]
                yield new
        for i, o in enumerate(case["ops"]):
            if o.get("size", 0) > 10:
                new = copy.deepcopy(case)
                new["ops"][i]["size"] = 10
                yield new
            if not isinstance(o["key"], int):
                new = copy.deepcopy(case)
                new["ops"][i]["key"] = i
                yield new
        for j, k in enumerate(ks):
            if k.get("at", 0) > 0:
                for at in (0, k["at"] // 2, k["at"] - 1):
                    new = copy.deepcopy(case)
                    new["kills"][j]["at"] = at
                    yield new
