"""C18 — control coefficients: model left untouched, same sequentially or in parallel;
analytic sensitivities of power-law chains as the value oracle (DESIGN §4.5)."""

from __future__ import annotations

import copy
from collections import Counter

import numpy as np

from simkit import integrators, simpool
from simkit.core import HarnessError, Machine, RunResult, Trace, canon, diff_values, digest_of, sig_matches, violation
from simkit.rng import SimRng


def _influx(k0):  # noqa: ANN001, ANN202
    return k0


def _plaw(x, k, g):  # noqa: ANN001, ANN202
    return k * x**g


def _scaled(k, c):  # noqa: ANN001, ANN202
    return k * c


def _ratio2(a, b):  # noqa: ANN001, ANN202
    return a / b


def x0_of(spec: dict) -> list[float]:
    """Initial state at the UNPERTURBED parameter values."""
    x0 = [float(v) for v in spec["x0"]]
    if spec.get("ia_x0"):
        x0[0] = float(spec["k0"]) * float(spec["ia_x0"])
    return x0


def chain_model(spec: dict):  # noqa: ANN201
    """x1 -> x2 -> ... with constant influx k0 and power-law outflows v_i = k_i * x_i**g_i."""
    from mxlpy import Model

    m = Model()
    n = len(spec["k"])
    m.add_parameter("k0", float(spec["k0"]))
    if spec.get("ia_x0"):
        m.add_parameter("ia_c", float(spec["ia_x0"]))
    for i in range(n):
        if i == 0 and spec.get("derived_k1"):
            # k1 is a derived parameter of a derived parameter, declared BEFORE what it depends
            # on (legal: the model sorts dependencies itself): k1 = vmax / keq, vmax = kcat * e
            m.add_parameters({"kcat": float(spec["k"][0]), "e": 2.0, "keq": 2.0})
            m.add_derived("k1", _ratio2, args=["vmax", "keq"])
            m.add_derived("vmax", _scaled, args=["kcat", "e"])
        else:
            m.add_parameter(f"k{i + 1}", float(spec["k"][i]))
        m.add_parameter(f"g{i + 1}", float(spec["g"][i]))
        if i == 0 and spec.get("ia_x0"):
            from mxlpy import InitialAssignment

            # the first initial value is COMPUTED from a parameter (x1(0) = ia_x0 * k0)
            m.add_variable("x1", InitialAssignment(fn=_scaled, args=["k0", "ia_c"]))
        else:
            m.add_variable(f"x{i + 1}", float(spec["x0"][i]))
    if spec.get("ia_param"):
        from mxlpy import InitialAssignment

        # a parameter DEFINED by an initial assignment (used by no rate law): q = k0 * 2
        m.add_parameter("q", InitialAssignment(fn=_scaled, args=["k0", "g1"]))
    m.add_reaction("v0", _influx, args=["k0"], stoichiometry={"x1": 1})
    for i in range(n):
        st = {f"x{i + 1}": -1}
        if i + 1 < n:
            st[f"x{i + 2}"] = 1
        m.add_reaction(f"v{i + 1}", _plaw, args=[f"x{i + 1}", f"k{i + 1}", f"g{i + 1}"], stoichiometry=st)
    return m


def _fwd(a, k1):  # noqa: ANN001, ANN202
    return k1 * a


def _bwd(b, k2):  # noqa: ANN001, ANN202
    return k2 * b


def cycle_model(spec: dict):  # noqa: ANN201
    """Closed cycle A <-> B with a conserved pool: A(0) is computed from the parameter T by an
    initial assignment, B(0) = 0.  The steady state depends on the pool."""
    from mxlpy import InitialAssignment, Model

    m = Model()
    m.add_parameters({"k1": float(spec["k1"]), "k2": float(spec["k2"]), "T": float(spec["T"])})
    m.add_variable("A", InitialAssignment(fn=_influx, args=["T"]))
    m.add_variable("B", 0.0)
    m.add_reaction("vf", _fwd, args=["A", "k1"], stoichiometry={"A": -1, "B": 1})
    m.add_reaction("vb", _bwd, args=["B", "k2"], stoichiometry={"A": 1, "B": -1})
    return m


def cycle_coefficients(spec: dict, pool: float, col: str, *, normalized: bool) -> dict:
    """Closed-form response coefficients of the cycle wrt k1, k2 or T (pool = total in force)."""
    k1, k2 = float(spec["k1"]), float(spec["k2"])
    s = k1 + k2
    a, b, j = k2 * pool / s, k1 * pool / s, k1 * k2 * pool / s
    if col == "T":
        sc = {"A": 1.0, "B": 1.0, "vf": 1.0, "vb": 1.0}
        val = float(spec["T"])
    elif col == "k1":
        sc = {"A": -k1 / s, "B": k2 / s, "vf": k2 / s, "vb": k2 / s}
        val = k1
    else:
        sc = {"A": k1 / s, "B": -k2 / s, "vf": k1 / s, "vb": k1 / s}
        val = k2
    if normalized:
        return sc
    base = {"A": a, "B": b, "vf": j, "vb": j}
    return {n: sc[n] * base[n] / val for n in sc}


def model_state(m) -> dict:  # noqa: ANN001
    return {
        "content": canon({
            "p": m.get_raw_parameters(), "v": m.get_raw_variables(), "d": m.get_raw_derived(), "r": m.get_raw_reactions(),
        }),
        "pv": {k: float(v) for k, v in m.get_parameter_values().items()},
        "ic": {k: float(v) for k, v in m.get_initial_conditions().items()},
    }


class Exec:
    def __init__(self, prop: str, case: dict, known: list[list[str]]) -> None:
        self.prop = prop
        self.case = case
        self.known = known
        self.trace = Trace()
        self.violations: list[dict] = []
        self.counters: Counter = Counter()
        self.shape: set = set()
        self.i = 0

    def _viol(self, check: str, sig: list[str], detail: str) -> None:
        self.violations.append(violation(self.prop, check, sig, self.i, detail))

    def stop(self) -> bool:
        return any(not any(sig_matches(k, v["signature"]) for k in self.known) for v in self.violations)

    def integ(self):  # noqa: ANN201
        c = self.case
        if c.get("poison"):
            return integrators.FaultyFactory(c["integrator"], tuple(c["poison"]), c.get("poison_mode", "fail"))
        return integrators.inner_type(c["integrator"])

    def untouched(self, m, before: dict, routine: str, mode: str, extra: str) -> bool:  # noqa: ANN001
        after = model_state(m)
        for what in ("ic", "pv", "content"):
            if after[what] != before[what]:
                name = {"content": "content", "pv": "parameter_values", "ic": "initial_values"}[what]
                self._viol("model_modified", ["model_modified", routine, name, mode, extra], f"{routine} ({mode}, {extra}) left the caller's model with different {name}: before {before[what] if what != 'content' else '...'} after {after[what] if what != 'content' else '...'}")
                return False
        return True

    def step(self, i: int, op: dict) -> None:  # noqa: C901, PLR0912, PLR0915
        from mxlpy import mc, mca

        self.i = i
        spec = self.case["spec"]
        n = len(spec["k"])
        k = [float(spec["k0"]), *[float(v) for v in spec["k"]]]
        g = [float(v) for v in spec["g"]]
        kind = op["op"]
        normalized = bool(op.get("normalized", True))
        self.shape.add((kind, normalized, bool(op.get("variables")), bool(self.case.get("poison"))))
        if kind in ("variable_elasticities", "parameter_elasticities"):
            m = chain_model(dict(spec, ia_param=True) if op.get("ia_param") else spec)
            before = model_state(m)
            state = {f"x{j + 1}": float(op["state"][j]) for j in range(n)} if op.get("state") else None
            xs = [float(op["state"][j]) for j in range(n)] if op.get("state") else x0_of(spec)
            if op.get("interrupt_at") is not None:
                # the user interrupts the routine half-way (Ctrl-C while a flux evaluation runs):
                # the model it was handed must still be as it was found
                from simkit import fnlib

                ts = op.get("to_scan")
                if ts and spec.get("derived_k1"):
                    ts = ["kcat" if c == "k1" else c for c in ts]
                fired = False
                try:
                    with fnlib.Tripper(m, int(op["interrupt_at"]), methods=("get_fluxes",)):
                        if kind == "variable_elasticities":
                            mca.variable_elasticities(m, variables=state, normalized=normalized, to_scan=op.get("to_scan"))
                        else:
                            mca.parameter_elasticities(m, variables=state, normalized=normalized, to_scan=ts)
                except fnlib.SimInterrupt:
                    fired = True
                except Exception as e:  # noqa: BLE001
                    self.trace.add(kind, "interrupt_exc", type(e).__name__)
                self.trace.add(kind, "interrupted" if fired else "interrupt_not_reached")
                if fired:
                    self.counters["fault_fired:routine_interrupted"] += 1
                    self.untouched(m, before, kind, "mode:direct", "after_interrupt")
                return
            try:
                if kind == "variable_elasticities":
                    tab = mca.variable_elasticities(m, variables=state, normalized=normalized, to_scan=op.get("to_scan"))
                else:
                    ts = op.get("to_scan")
                    if ts and spec.get("derived_k1"):
                        ts = ["kcat" if c == "k1" else c for c in ts]
                    tab = mca.parameter_elasticities(m, variables=state, normalized=normalized, to_scan=ts)
            except Exception as e:  # noqa: BLE001
                if op.get("ia_param") and isinstance(e, KeyError):
                    # the routine cannot look up the value of a parameter that is defined by an
                    # initial assignment and gives up: not a wrong coefficient (counted, not
                    # charged) - but the model it was handed must be as it was found
                    self.counters["observed:elasticities_give_up_on_assignment_defined_parameter"] += 1
                    self.trace.add(kind, "gave_up", "KeyError")
                    self.untouched(m, before, kind, "mode:direct", "after_routine_gave_up")
                    return
                self._viol("routine_raised", ["routine_raised", kind, type(e).__name__], f"{kind} raised {type(e).__name__}: {str(e)[:100]}")
                return
            self.trace.add(kind, digest_of(canon(tab)))
            if not self.untouched(m, before, kind, "mode:direct", "state_given" if state else "default_state"):
                return
            v = [k[0]] + [k[j + 1] * xs[j] ** g[j] for j in range(n)]
            for col in tab.columns:
                for j in range(n + 1):
                    got = float(tab.loc[f"v{j}", col])
                    if kind == "variable_elasticities":
                        xi = int(col[1:]) - 1
                        want = g[xi] if (j == xi + 1) else 0.0
                        if not normalized:
                            want = want * v[j] / xs[xi] if j == xi + 1 else 0.0
                    else:
                        want = 0.0
                        if col == f"k{j}":
                            want = 1.0 if normalized else v[j] / k[j]
                        elif col == "ia_c":
                            want = 0.0  # the state is held fixed: no flux depends on ia_c directly
                        elif col in ("kcat", "e", "keq"):
                            # v1 = (kcat * e / keq) * x1**g1
                            sgn = -1.0 if col == "keq" else 1.0
                            val = {"kcat": k[1], "e": 2.0, "keq": 2.0}[col]
                            want = (sgn if normalized else sgn * v[1] / val) if j == 1 else 0.0
                        elif col.startswith("g") and j == int(col[1:]) and j >= 1:
                            # d v_j / d g_j = v_j ln x_j
                            want = g[j - 1] * np.log(xs[j - 1]) if normalized else v[j] * np.log(xs[j - 1])
                    if not (abs(got - want) <= 1e-6 * (1 + abs(want))):
                        self._viol("wrong_elasticity", ["wrong_elasticity", kind, "normalized" if normalized else "unscaled"], f"{kind}[{'v%d' % j}, {col}] = {got}, analytic {want}")
                        return
            self.counters[f"tables_checked:{kind}"] += 1
            return
        if kind == "cycle_response_coefficients":
            cs = op["cycle"]
            variables = {"A": float(op["variables"][0]), "B": float(op["variables"][1])} if op.get("variables") else None
            pool = sum(variables.values()) if variables else float(cs["T"])
            to_scan = op.get("to_scan") or ["k1", "k2", "T"]
            if variables:
                to_scan = [c for c in to_scan if c != "T"] or ["k1"]  # T no longer feeds the state once A is given
            b0 = op.get("model_initial_B")
            if b0 is not None and not variables:
                pool = float(cs["T"]) + float(b0)
                to_scan = [c for c in to_scan if c != "T"] or ["k1"]  # (the pool is no longer T alone)
                self.counters["cycle_on_model_with_changed_initial_values"] += 1
            tables = {}
            for sched in op["schedules"]:
                m = cycle_model(cs)
                if b0 is not None and not variables:
                    m.update_variable("B", float(b0))
                before = model_state(m)
                par = sched["mode"] == "pool"
                mode = "mode:pool" if par else "mode:sequential"
                if par:
                    simpool.install(simpool.PoolPlan(workers=sched["W"], seed=sched["seed"]))
                try:
                    rc = mca.response_coefficients(m, to_scan=to_scan, variables=variables, normalized=normalized, parallel=par, max_workers=sched.get("W"), integrator=integrators.inner_type(self.case["integrator"]), disable_tqdm=True)
                    cv, cf = rc.variables, rc.fluxes
                except Exception as e:  # noqa: BLE001
                    self._viol("routine_raised", ["routine_raised", kind, mode, type(e).__name__], f"{kind} ({mode}) raised {type(e).__name__}: {str(e)[:100]}")
                    return
                finally:
                    if par:
                        simpool.uninstall()
                self.trace.add(kind, sched, digest_of(canon(cv)), digest_of(canon(cf)))
                self.counters[f"schedule:{sched['mode']}"] += 1
                if not self.untouched(m, before, kind, mode, "variables_given" if variables else "default_variables"):
                    return
                tables[mode + str(sched.get("W"))] = (cv, cf)
                tol = 1e-5 if self.case["integrator"] == "exact" else 3e-2
                for col in to_scan:
                    want = cycle_coefficients(cs, pool, col, normalized=normalized)
                    for name, tab in (("A", cv), ("B", cv), ("vf", cf), ("vb", cf)):
                        got = float(tab.loc[name, col])
                        noise = 0.0 if (normalized or self.case["integrator"] == "exact") else 2e-2 * pool / float(cs[col])
                        if not (abs(got - want[name]) <= tol * (1 + abs(want[name])) + noise):
                            self._viol("wrong_response_coefficient", ["wrong_response_coefficient", kind, "conserved_pool", "normalized" if normalized else "unscaled", "variables_given" if variables else "default_variables", mode], f"cycle C[{name}, {col}] = {got}, closed form {want[name]} (pool {pool}, {mode})")
                            return
                self.counters[f"tables_checked:{kind}"] += 1
            keys = list(tables)
            for a, b in zip(keys, keys[1:], strict=False):
                for idx, nm in ((0, "variables"), (1, "fluxes")):
                    d = diff_values(tables[a][idx], tables[b][idx], rtol=1e-9, atol=1e-12)
                    if d is not None:
                        self._viol("schedule_dependent", ["schedule_dependent", kind, nm], f"{nm} coefficients differ between {a} and {b} ({d})")
                        return
            return
        if kind in ("mc_variable_elasticities", "mc_parameter_elasticities"):
            import pandas as pd

            m = chain_model(spec)
            before = model_state(m)
            k0s = [float(v) for v in op["mc_k0"]]
            tab = pd.DataFrame({"k0": k0s})
            state = {f"x{j + 1}": float(op["state"][j]) for j in range(n)}
            sched = op["schedules"][0]
            simpool.install(simpool.PoolPlan(workers=sched["W"], seed=sched["seed"]))
            try:
                if kind == "mc_variable_elasticities":
                    res = mc.variable_elasticities(m, mc_to_scan=tab, variables=state, normalized=normalized, max_workers=sched["W"])
                else:
                    res = mc.parameter_elasticities(m, mc_to_scan=tab, to_scan=[("kcat" if (j == 1 and spec.get("derived_k1")) else f"k{j}") for j in range(n + 1)], variables=state, normalized=normalized, max_workers=sched["W"])
            except Exception as e:  # noqa: BLE001
                self._viol("routine_raised", ["routine_raised", kind, type(e).__name__], f"{kind} raised {type(e).__name__}: {str(e)[:100]}")
                return
            finally:
                simpool.uninstall()
            self.trace.add(kind, sched, digest_of(canon(res)))
            self.counters["schedule:pool"] += 1
            if not self.untouched(m, before, kind, "mode:pool", "state_given"):
                return
            xs = [float(op["state"][j]) for j in range(n)]
            for ri, k0 in enumerate(k0s):
                sub = res.xs(ri, level=0)
                v = [k0] + [k[j + 1] * xs[j] ** g[j] for j in range(n)]
                kk = [k0, *k[1:]]
                for col in sub.columns:
                    for j in range(n + 1):
                        got = float(sub.loc[f"v{j}", col])
                        if kind == "mc_variable_elasticities":
                            xi = int(col[1:]) - 1
                            want = (g[xi] if normalized else g[xi] * v[j] / xs[xi]) if j == xi + 1 else 0.0
                        else:
                            own = col == f"k{j}" or (col == "kcat" and j == 1)
                            want = (1.0 if normalized else v[j] / kk[j]) if own else 0.0
                        if not (abs(got - want) <= 1e-6 * (1 + abs(want))):
                            self._viol("wrong_elasticity", ["wrong_elasticity", kind, "normalized" if normalized else "unscaled"], f"{kind} row {ri} [{'v%d' % j}, {col}] = {got}, analytic {want}")
                            return
            self.counters[f"tables_checked:{kind}"] += 1
            return
        if kind in ("response_coefficients", "mc_response_coefficients"):
            tables = {}
            variables = {f"x{j + 1}": float(op["variables"][j]) for j in range(n)} if op.get("variables") else None
            to_scan = op.get("to_scan") or [f"k{j}" for j in range(n + 1)]
            if spec.get("derived_k1"):
                to_scan = ["kcat" if c == "k1" else c for c in to_scan]
            scheds = op["schedules"]
            for sched in scheds:
                m = chain_model(spec)
                before = model_state(m)
                par = sched["mode"] == "pool"
                mode = "mode:pool" if par else "mode:sequential"
                if par:
                    simpool.install(simpool.PoolPlan(workers=sched["W"], seed=sched["seed"]))
                try:
                    if kind == "response_coefficients":
                        rc = mca.response_coefficients(m, to_scan=to_scan, variables=variables, normalized=normalized, parallel=par, max_workers=sched.get("W"), integrator=self.integ(), disable_tqdm=True)
                    else:
                        import pandas as pd

                        tab = pd.DataFrame({"k0": [float(v) for v in op["mc_k0"]]})
                        rc = mc.response_coefficients(m, mc_to_scan=tab, to_scan=to_scan, variables=variables, normalized=normalized, max_workers=sched.get("W"), integrator=self.integ(), disable_tqdm=True)
                    cv, cf = rc.variables, rc.fluxes
                except integrators.SimulatedSolverCrash:
                    # the injected solver crash propagates (legitimately); the caller's model
                    # must still be as the routine found it
                    self.counters["fault_fired:solver_crash"] += 1
                    self.trace.add(kind, sched, "solver_crash")
                    if par:
                        simpool.uninstall()
                        par = False
                    self.untouched(m, before, kind, mode, "after_solver_crash")
                    if self.stop():
                        return
                    continue
                except Exception as e:  # noqa: BLE001
                    self._viol("routine_raised", ["routine_raised", kind, mode, type(e).__name__], f"{kind} ({mode}) raised {type(e).__name__}: {str(e)[:100]}")
                    return
                finally:
                    if par:
                        simpool.uninstall()
                self.trace.add(kind, sched, digest_of(canon(cv)), digest_of(canon(cf)))
                self.counters[f"schedule:{sched['mode']}"] += 1
                if not self.untouched(m, before, kind, mode, "variables_given" if variables else "default_variables"):
                    return
                tables[mode + str(sched.get("W"))] = (cv, cf)
                # value oracle (closed-form sensitivities of the chain's steady state)
                if not self.case.get("poison"):
                    k0s = [float(v) for v in op["mc_k0"]] if kind == "mc_response_coefficients" else [k[0]]
                    tol = 1e-5 if self.case["integrator"] == "exact" else 3e-2
                    for ri, k0 in enumerate(k0s):
                        xstar = [(k0 / k[j + 1]) ** (1.0 / g[j]) for j in range(n)]
                        sub_v = cv.xs(ri, level=0) if kind == "mc_response_coefficients" else cv
                        sub_f = cf.xs(ri, level=0) if kind == "mc_response_coefficients" else cf
                        for col in to_scan:
                            pj = 1 if col == "kcat" else int(col[1:])
                            for j in range(n):
                                want = (1.0 / g[j]) if pj == 0 else (-1.0 / g[j] if pj == j + 1 else 0.0)
                                if not normalized:
                                    kk = k0 if pj == 0 else k[pj]
                                    want = want * xstar[j] / kk
                                got = float(sub_v.loc[f"x{j + 1}", col])
                                # noise of a difference quotient of a 1e-6-accurate state over 2e-4*k
                                noise = 0.0 if (normalized or self.case["integrator"] == "exact") else 2e-2 * xstar[j] / (k0 if pj == 0 else k[pj])
                                if not (abs(got - want) <= tol * (1 + abs(want)) + noise):
                                    self._viol("wrong_response_coefficient", ["wrong_response_coefficient", kind, "variables", "normalized" if normalized else "unscaled", mode], f"C[x{j + 1}, {col}] = {got}, analytic {want} ({mode})")
                                    return
                            for j in range(n + 1):
                                want = 1.0 if pj == 0 else 0.0
                                if not normalized:
                                    want = want * 1.0  # dJ/dk0 = 1
                                got = float(sub_f.loc[f"v{j}", col])
                                noise = 0.0 if (normalized or self.case["integrator"] == "exact") else 2e-2 * k0 / (k0 if pj == 0 else k[pj])
                                if not (abs(got - want) <= tol * (1 + abs(want)) + noise):
                                    self._viol("wrong_response_coefficient", ["wrong_response_coefficient", kind, "fluxes", "normalized" if normalized else "unscaled", mode], f"C[v{j}, {col}] = {got}, analytic {want} ({mode})")
                                    return
                    self.counters[f"tables_checked:{kind}"] += 1
            keys = list(tables)
            for a, b in zip(keys, keys[1:], strict=False):
                for idx, nm in ((0, "variables"), (1, "fluxes")):
                    d = diff_values(tables[a][idx], tables[b][idx], rtol=1e-9, atol=1e-12)
                    if d is not None:
                        self._viol("schedule_dependent", ["schedule_dependent", kind, nm], f"{nm} coefficients differ between {a} and {b} ({d})")
                        return
            return
        raise HarnessError(kind)


def gen_case(rng: SimRng, tier: str) -> dict:  # noqa: ARG001
    r = rng("case")
    n = r.randint(1, 3)
    integ = r.choice(["exact", "exact", "scipy"])
    g = [1.0] * n if integ == "exact" else [r.choice([1.0, 2.0, 0.5, 1.0]) for _ in range(n)]
    spec = {
        "k0": r.choice([0.5, 1.0, 2.0]),
        "k": [r.choice([0.5, 1.0, 2.0, 4.0]) for _ in range(n)],
        "g": g,
        "x0": [r.choice([0.5, 1.0, 2.0, 3.0]) for _ in range(n)],
    }
    ops = []
    for _ in range(r.randint(1, 3)):
        kind = rng.weighted("case", [("variable_elasticities", 1), ("parameter_elasticities", 1.5), ("response_coefficients", 3), ("mc_response_coefficients", 1), ("mc_variable_elasticities", 0.5), ("mc_parameter_elasticities", 0.5), ("cycle_response_coefficients", 1.5)])
        op: dict = {"op": kind, "normalized": r.random() < 0.6}
        if kind == "cycle_response_coefficients":
            op["cycle"] = {"k1": r.choice([0.5, 1.0, 2.0]), "k2": r.choice([0.5, 1.0, 3.0]), "T": r.choice([2.0, 3.0, 6.0])}
            if r.random() < 0.5:
                op["variables"] = [r.choice([1.0, 2.0, 5.0]), r.choice([0.5, 1.0, 3.0])]
            if r.random() < 0.4:
                op["to_scan"] = sorted(r.sample(["k1", "k2", "T"], r.randint(1, 3)))
            scheds = [{"mode": "seq"}] + [{"mode": "pool", "W": r.choice([1, 2, 4]), "seed": r.randrange(10**6)} for _ in range(r.randint(0, 1))]
            r.shuffle(scheds)
            op["schedules"] = scheds
            ops.append(op)
            if not op.get("variables") and r.random() < 0.5:
                # the same analysis again after the user gave the MODEL ITSELF other initial values
                # (same parameters, nothing passed through variables=): another conserved pool
                op2 = copy.deepcopy(op)
                op2["model_initial_B"] = r.choice([1.0, 3.0, 6.0])
                op2["normalized"] = True if r.random() < 0.7 else op["normalized"]
                ops.append(op2)
            continue
        if kind in ("mc_variable_elasticities", "mc_parameter_elasticities"):
            op["state"] = [r.choice([0.5, 1.5, 2.0, 4.0]) for _ in range(n)]
            op["mc_k0"] = [r.choice([0.5, 1.0, 2.0, 3.0]) for _ in range(r.randint(1, 3))]
            op["schedules"] = [{"mode": "pool", "W": r.choice([1, 2, 4, 16]), "seed": r.randrange(10**6)}]
        elif kind in ("variable_elasticities", "parameter_elasticities"):
            if r.random() < 0.6:
                op["state"] = [r.choice([0.5, 1.5, 2.0, 4.0]) for _ in range(n)]
            if kind == "parameter_elasticities" and r.random() < 0.5:
                op["to_scan"] = r.sample([f"k{j}" for j in range(n + 1)], r.randint(1, n + 1))
            if r.random() < 0.2:
                op["interrupt_at"] = r.choice([0, 1, 2, 3, 4, 5, 7, 9])
            elif kind == "parameter_elasticities" and r.random() < 0.3:
                op["ia_param"] = True
                if r.random() < 0.6:
                    op["to_scan"] = r.sample([f"k{j}" for j in range(n + 1)], r.randint(1, n + 1)) + ["q"]
        else:
            if r.random() < 0.5:
                op["variables"] = [r.choice([0.25, 1.5, 5.0]) for _ in range(n)]
            if r.random() < 0.5:
                op["to_scan"] = sorted(r.sample([f"k{j}" for j in range(n + 1)], r.randint(1, n + 1)))
            scheds = []
            if kind == "response_coefficients":
                scheds.append({"mode": "seq"})
            for _ in range(r.randint(1, 2)):
                scheds.append({"mode": "pool", "W": r.choice([1, 2, 4, 16]), "seed": r.randrange(10**6)})
            r.shuffle(scheds)
            op["schedules"] = scheds
            if kind == "mc_response_coefficients":
                op["mc_k0"] = [r.choice([0.5, 1.0, 2.0, 3.0]) for _ in range(r.randint(1, 3))]
        ops.append(op)
    case = {"spec": spec, "integrator": integ, "ops": ops, "poison": []}
    if r.random() < 0.3:
        spec["ia_x0"] = r.choice([0.5, 2.0, 3.0])
    if r.random() < 0.3:
        spec["derived_k1"] = True
    if r.random() < 0.25:
        # the steady state at one perturbed parameter value fails (content-keyed)
        j = r.randrange(n + 1)
        kk = spec["k0"] if j == 0 else spec["k"][j - 1]
        case["poison"] = [kk * (1 + 1e-4)] if r.random() < 0.5 else [kk * (1 - 1e-4)]
        case["poison_mode"] = r.choice(["fail", "raise"])
    return case


class McaMachine(Machine):
    name = "mca"
    properties = ("C18",)
    runs = {"quick": 3000, "thorough": 150000}
    run_timeout = 240.0
    rule = (
        "one run = one seeded power-law chain (1-3 variables, constant influx, kinetic orders 0.5/1/2) and 1-3 MCA routines: "
        "variable/parameter elasticities at default or given states (scaled/unscaled, to_scan subsets), response_coefficients sequentially "
        "AND under SimPool schedules (W in {1,2,4,16}, seeded completion order), with or without variables=, mc.response_coefficients over a "
        "table; optionally the steady state at one perturbed value fails (content-keyed Faulty integrator). Checks: caller's model content / "
        "parameter values / initial values identical before and after every routine under every schedule; identical tables across schedules; "
        "values equal kinetic orders resp. closed-form steady-state sensitivities. distinct = distinct set of (routine, normalized, "
        "variables given, fault) tuples + chain length + integrator; non-trivial = a routine ran under >= 2 schedules or with a fired fault"
    )
    real_components = ["mxlpy.mca.variable_elasticities/parameter_elasticities/response_coefficients and worker", "mxlpy.mc.response_coefficients", "mxlpy.parallel.parallelise (both branches)", "mxlpy.scan._steady_state_worker, Simulator, Scipy steady-state loop in scipy runs"]
    stub_components = ["pebble.ProcessPool -> SimPool", "integrator -> ExactLinear (kinetic orders 1) in runs that say so; Faulty wrapper for the failing perturbed steady state", "Model.get_fluxes -> interrupt seam (fnlib.Tripper) in the elasticity calls that say so"]
    assumptions = ["analytic sensitivities of the chain: x_i* = (k0/k_i)^(1/g_i), flux k0", "scipy runs judged at 3e-2 (difference quotient of a 1e-6-accurate state over 2e-4*k), exact runs at 1e-5"]

    def run_seed(self, seed: int, tier: str, known: list[list[str]]) -> RunResult:
        case = gen_case(SimRng(seed), tier)
        case["seed"] = seed
        return self.replay(case, known)

    def replay(self, case: dict, known: list[list[str]]) -> RunResult:
        ex = Exec(self.prop, case, known)
        for i, op in enumerate(case["ops"]):
            ex.step(i, op)
            if ex.stop():
                break
        multi = any(len(op.get("schedules", [])) >= 2 for op in case["ops"])
        shape = digest_of([sorted(str(s) for s in ex.shape), len(case["spec"]["k"]), case["integrator"]])
        return RunResult(case=case, violations=ex.violations, digest=ex.trace.digest(), counters=ex.counters, shape=shape, nontrivial=multi or bool(case.get("poison")), sim_time=0.0, steps=ex.trace.n)

    def simplifications(self, case: dict):  # noqa: ANN201
        for i, op in enumerate(case["ops"]):
            if len(op.get("schedules", [])) > 1:
                for j in range(len(op["schedules"])):
                    new = copy.deepcopy(case)
                    new["ops"][i]["schedules"] = op["schedules"][:j] + op["schedules"][j + 1 :]
                    yield new
            for key in ("to_scan", "state"):
                if op.get(key):
                    new = copy.deepcopy(case)
                    new["ops"][i].pop(key)
                    yield new
        if case.get("poison"):
            new = copy.deepcopy(case)
            new["poison"] = []
            yield new
        n = len(case["spec"]["k"])
        if n > 1 and not any(op.get("state") or op.get("variables") or op.get("to_scan") for op in case["ops"]):
            new = copy.deepcopy(case)
            for key in ("k", "g", "x0"):
                new["spec"][key] = case["spec"][key][:1]
            yield new
