"""C03 — edit histories over one Model with a memo (DESIGN §4.1).

The simulator is the model's only caller.  After every op the edited model is compared
with a model freshly rebuilt from its own content (public raw getters -> public add_*).
"""

from __future__ import annotations

import copy
import types
from collections import Counter

from simkit.core import (
    HarnessError,
    Machine,
    RunResult,
    Trace,
    canon,
    diff_outcomes,
    digest_of,
    outcome,
    sig_matches,
    violation,
)
from simkit.fnlib import ARITY, SCALAR_FNS, SURROGATE_FNS
from simkit.fnlib import FN as _FN_STATIC

#: runs with ephemeral functions: every function handed to the model is a NEW function object
#: (same code) that nothing but the model refers to, as when a user defines rate laws inside a
#: loop or a notebook cell that is re-run: it dies when the model drops it, and a later
#: function may be allocated at its address (anything remembered by id() goes stale)
EPHEMERAL = [False]


class _FnTable:
    def __getitem__(self, name: str):  # noqa: ANN204
        f = _FN_STATIC[name]
        if not EPHEMERAL[0] or not isinstance(f, types.FunctionType):
            return f
        g = types.FunctionType(f.__code__, f.__globals__, f.__name__, f.__defaults__, f.__closure__)
        g.__qualname__ = f.__qualname__
        g.__module__ = f.__module__
        return g

    def __contains__(self, name: str) -> bool:
        return name in _FN_STATIC


FN = _FnTable()
from simkit.rng import SimRng, derive

KINDS = ["parameter", "variable", "derived", "reaction", "readout", "surrogate", "data"]
NAME_POOL = ["a", "b", "c", "p1", "p2", "p3", "d1", "d2", "r1", "r2", "s1", "o1", "o2", "o3", "ro1", "dat1", "x", "y"]

ADD_OPS = {
    "add_parameter": "parameter", "add_variable": "variable", "add_derived": "derived",
    "add_reaction": "reaction", "add_readout": "readout", "add_surrogate": "surrogate",
    "add_data": "data",
}
TARGET_KIND = {
    "remove_parameter": "parameter", "update_parameter": "parameter", "scale_parameter": "parameter",
    "make_parameter_dynamic": "parameter",
    "remove_variable": "variable", "update_variable": "variable", "make_variable_static": "variable",
    "update_derived": "derived", "remove_derived": "derived",
    "update_reaction": "reaction", "remove_reaction": "reaction",
    "remove_readout": "readout",
    "update_surrogate": "surrogate", "remove_surrogate": "surrogate",
    "update_data": "data", "remove_data": "data",
}
BATCH_OPS = {
    "add_parameters": "parameter", "update_parameters": "parameter", "remove_parameters": "parameter",
    "scale_parameters": "parameter",
    "add_variables": "variable", "update_variables": "variable", "remove_variables": "variable",
}
MUTATORS = list(ADD_OPS) + list(TARGET_KIND) + list(BATCH_OPS)

QUERIES = [
    "get_args_all", "get_args_default", "get_args_flags", "rhs", "call", "fluxes", "stoich",
    "initial_conditions", "parameter_values", "derived_parameter_names", "derived_variable_names",
    "names", "args_time_course", "fluxes_time_course", "rhs_time_course", "unused_parameters",
    "stoich_of_variable", "derived_split", "mutate_returned",
]
FLAG_NAMES = [
    "include_time", "include_variables", "include_parameters", "include_derived_parameters",
    "include_derived_variables", "include_reactions", "include_surrogate_variables",
    "include_surrogate_fluxes", "include_readouts",
]


# --------------------------------------------------------------------------
# snapshot / rebuild
# --------------------------------------------------------------------------
def snapshot(model) -> dict:  # noqa: ANN001
    """Deep copy of the model's content through the public raw getters."""
    data = getattr(model, "_data", None)
    if data is None:  # field renamed: fall back to names registered as data
        data = {k: None for k, v in model.ids.items() if v == "data"}
    return {
        "parameter": model.get_raw_parameters(as_copy=True),
        "variable": model.get_raw_variables(as_copy=True),
        "derived": model.get_raw_derived(as_copy=True),
        "reaction": model.get_raw_reactions(as_copy=True),
        "readout": model.get_raw_readouts(as_copy=True),
        "surrogate": model.get_raw_surrogates(as_copy=True),
        "data": copy.deepcopy(dict(data)),
    }


def names_of(snap: dict) -> dict[str, list[str]]:
    """name -> kinds under which it occurs (surrogate outputs as 'surrogate_output')."""
    out: dict[str, list[str]] = {}
    for kind in KINDS:
        for n in snap[kind]:
            out.setdefault(n, []).append(kind)
    for s in snap["surrogate"].values():
        for o in getattr(s, "outputs", []):
            out.setdefault(o, []).append("surrogate_output")
    return out


class RebuildError(Exception):
    pass


def rebuild(snap: dict):  # noqa: ANN201
    """A fresh Model populated from a snapshot through the public add_* calls,
    in the containers' own order."""
    from mxlpy import Model

    snap = copy.deepcopy(snap)
    m = Model()
    try:
        for n, p in snap["parameter"].items():
            m.add_parameter(n, p.value, unit=p.unit, source=p.source)
        for n, v in snap["variable"].items():
            m.add_variable(n, v.initial_value, unit=v.unit, source=v.source)
        for n, d in snap["derived"].items():
            m.add_derived(n, d.fn, args=d.args, unit=d.unit)
        for n, r in snap["reaction"].items():
            m.add_reaction(n, r.fn, args=r.args, stoichiometry=r.stoichiometry, unit=r.unit)
        for n, r in snap["readout"].items():
            m.add_readout(n, r.fn, args=r.args, unit=r.unit)
        for n, s in snap["surrogate"].items():
            m.add_surrogate(n, s)
        for n, d in snap["data"].items():
            m.add_data(n, d)
    except (NameError, KeyError) as e:
        raise RebuildError(type(e).__name__) from e
    return m


# --------------------------------------------------------------------------
# op execution
# --------------------------------------------------------------------------
def _value(v, boxes: dict | None = None, kind: str = "parameter"):  # noqa: ANN001, ANN202
    from mxlpy import InitialAssignment, Parameter, Variable

    if isinstance(v, dict) and "box" in v:
        # a Parameter / Variable CONTAINER object the caller keeps and passes again (under
        # another name, in a later call): the library must not adopt or change it
        if boxes is None:
            boxes = {}
        key = (kind, v["box"])
        if key not in boxes:
            boxes[key] = Parameter(value=float(v["value"])) if kind == "parameter" else Variable(initial_value=float(v["value"]))
        return boxes[key]
    if isinstance(v, dict):
        return InitialAssignment(fn=FN[v["ia"]], args=list(v["args"]))
    return v


def _stoich(st):  # noqa: ANN001, ANN202
    from mxlpy import Derived

    out = {}
    for k, v in st.items():
        if isinstance(v, dict):
            out[k] = Derived(fn=FN[v["derived"]], args=list(v["args"]))
        else:
            out[k] = v
    return out


def _surrogate(op: dict):  # noqa: ANN202
    from mxlpy.surrogates import qss

    return qss.Surrogate(
        model=FN[op["fn"]],
        args=list(op["args"]),
        outputs=list(op["outputs"]),
        stoichiometries={k: _stoich(v) for k, v in op.get("stoichiometries", {}).items()},
    )


def _series(vals):  # noqa: ANN001, ANN202
    import pandas as pd

    return pd.Series([float(v) for v in vals], dtype=float)


def _names_arg(op: dict):  # noqa: ANN202
    """The iterable of names a batch remover is handed: a list by default; on request a tuple,
    a dict view, or a ONE-SHOT iterable (generator / iter / map) - all legal Iterable[str]."""
    names = list(op["names"])
    how = op.get("as", "list")
    if how == "tuple":
        return tuple(names)
    if how == "generator":
        return (n for n in names)
    if how == "iter":
        return iter(names)
    if how == "map":
        return map(str, names)
    if how == "dict_keys":
        return dict.fromkeys(names).keys()
    return names


def apply_op(m, op: dict, boxes: dict | None = None) -> None:  # noqa: ANN001, C901, PLR0912, PLR0915
    k = op["op"]
    if boxes is None:
        boxes = {}
    if k == "add_parameter":
        m.add_parameter(op["name"], _value(op["value"]))
    elif k == "add_parameters":
        m.add_parameters({n: _value(v, boxes, "parameter") for n, v in op["items"]})
    elif k == "remove_parameter":
        m.remove_parameter(op["name"])
    elif k == "remove_parameters":
        m.remove_parameters(_names_arg(op))
    elif k == "update_parameter":
        m.update_parameter(op["name"], _value(op["value"]))
    elif k == "update_parameters":
        m.update_parameters({n: _value(v, boxes, "parameter") for n, v in op["items"]})
    elif k == "scale_parameter":
        m.scale_parameter(op["name"], op["factor"])
    elif k == "scale_parameters":
        m.scale_parameters({n: f for n, f in op["items"]})
    elif k == "make_parameter_dynamic":
        m.make_parameter_dynamic(op["name"], initial_value=op.get("initial_value"), stoichiometries=op.get("stoichiometries"))
    elif k == "add_variable":
        m.add_variable(op["name"], _value(op["value"]))
    elif k == "add_variables":
        m.add_variables({n: _value(v, boxes, "variable") for n, v in op["items"]})
    elif k == "remove_variable":
        m.remove_variable(op["name"], remove_stoichiometries=op.get("remove_stoichiometries", True))
    elif k == "remove_variables":
        m.remove_variables(_names_arg(op))
    elif k == "update_variable":
        m.update_variable(op["name"], _value(op["value"]))
    elif k == "update_variables":
        m.update_variables({n: _value(v, boxes, "variable") for n, v in op["items"]})
    elif k == "make_variable_static":
        m.make_variable_static(op["name"], value=op.get("value"))
    elif k == "add_derived":
        m.add_derived(op["name"], FN[op["fn"]], args=list(op["args"]))
    elif k == "update_derived":
        m.update_derived(op["name"], FN[op["fn"]] if op.get("fn") else None, args=list(op["args"]) if op.get("args") is not None else None)
    elif k == "remove_derived":
        m.remove_derived(op["name"])
    elif k == "add_reaction":
        m.add_reaction(op["name"], FN[op["fn"]], args=list(op["args"]), stoichiometry=_stoich(op["stoichiometry"]))
    elif k == "update_reaction":
        m.update_reaction(
            op["name"],
            FN[op["fn"]] if op.get("fn") else None,
            args=list(op["args"]) if op.get("args") is not None else None,
            stoichiometry=_stoich(op["stoichiometry"]) if op.get("stoichiometry") is not None else None,
        )
    elif k == "remove_reaction":
        m.remove_reaction(op["name"])
    elif k == "add_readout":
        m.add_readout(op["name"], FN[op["fn"]], args=list(op["args"]))
    elif k == "remove_readout":
        m.remove_readout(op["name"])
    elif k == "add_surrogate":
        m.add_surrogate(op["name"], _surrogate(op))
    elif k == "update_surrogate":
        m.update_surrogate(
            op["name"],
            surrogate=_surrogate(op["new"]) if op.get("new") else None,
            args=list(op["args"]) if op.get("args") is not None else None,
            outputs=list(op["outputs"]) if op.get("outputs") is not None else None,
            stoichiometries={k2: _stoich(v) for k2, v in op["stoichiometries"].items()} if op.get("stoichiometries") is not None else None,
        )
    elif k == "remove_surrogate":
        m.remove_surrogate(op["name"])
    elif k == "add_data":
        m.add_data(op["name"], _series(op["values"]))
    elif k == "update_data":
        m.update_data(op["name"], _series(op["values"]))
    elif k == "remove_data":
        m.remove_data(op["name"])
    else:
        raise HarnessError(f"unknown op {k}")


def state_for(m, state_id) -> dict | None:  # noqa: ANN001
    if state_id is None:
        return None
    return {n: 0.5 + (derive(state_id, n) % 8) / 4 for n in m.get_variable_names()}


def run_query(m, q: dict):  # noqa: ANN001, ANN201, C901, PLR0911, PLR0912
    import pandas as pd

    what = q["what"]
    st = state_for(m, q.get("state"))
    t = q.get("time", 0.0)
    if what == "get_args_all":
        return m.get_args(st, t, include_readouts=True)
    if what == "get_args_default":
        return m.get_args(st, t)
    if what == "get_args_flags":
        return m.get_args(st, t, **dict(zip(FLAG_NAMES, q["flags"], strict=True)))
    if what == "rhs":
        return m.get_right_hand_side(st, t)
    if what == "call":
        names = m.get_variable_names()
        if st is None:
            ic = m.get_initial_conditions()
            vals = [ic[n] for n in names]
        else:
            vals = [st[n] for n in names]
        return list(m(t, vals))
    if what == "fluxes":
        return m.get_fluxes(st, t)
    if what == "stoich":
        return m.get_stoichiometries(st, t)
    if what == "initial_conditions":
        return dict(m.get_initial_conditions())
    if what == "parameter_values":
        return dict(m.get_parameter_values())
    if what == "derived_parameter_names":
        return list(m.get_derived_parameter_names())
    if what == "derived_variable_names":
        return list(m.get_derived_variable_names())
    if what == "derived_split":
        return [sorted(m.get_derived_parameters()), sorted(m.get_derived_variables())]
    if what == "names":
        return [
            m.get_parameter_names(), m.get_variable_names(), m.get_reaction_names(), m.get_readout_names(),
            m.get_surrogate_output_names(), m.get_surrogate_reaction_names(), sorted(m.ids.items()),
        ]
    if what in ("args_time_course", "fluxes_time_course", "rhs_time_course"):
        names = m.get_variable_names()
        rows = {}
        for i, tt in enumerate([t, t + 0.5]):
            s = state_for(m, (q.get("state") or 0) + 100 + i)
            rows[tt] = [s[n] for n in names]
        df = pd.DataFrame(rows, index=names, dtype=float).T
        if what == "args_time_course":
            return m.get_args_time_course(df, include_readouts=bool(q.get("readouts")))
        if what == "fluxes_time_course":
            return m.get_fluxes_time_course(df)
        args = m.get_args_time_course(df)
        return m.get_right_hand_side_time_course(args)
    if what == "mutate_returned":
        # the caller scribbles on the dicts a query handed out (it owns them, after all);
        # the model's content is unchanged, so later answers must be too
        pv = m.get_parameter_values()
        ic = m.get_initial_conditions()
        for d in (pv, ic):
            for k in list(d):
                d[k] = -123.0
            d["__scribble__"] = 1.0
        return [sorted(m.get_parameter_values()), sorted(m.get_initial_conditions())]
    if what == "unused_parameters":
        return sorted(m.get_unused_parameters())
    if what == "stoich_of_variable":
        return m.get_stoichiometries_of_variable(q["name"], st, t)
    raise HarnessError(f"unknown query {what}")


def is_name_cause(cause: str) -> bool:
    """Was the op refused-worthy because of a duplicate / unknown / protected name?"""
    c = cause.removeprefix("batch:")
    return c.startswith(("dup:", "output_dup:", "wrong_kind:")) or c in ("time", "outputs_clash_self", "unknown", "unknown_reaction", "repeated")


def cause_of(op: dict, names: dict[str, list[str]], snap: dict | None = None) -> str:
    k = op["op"]
    if k == "make_parameter_dynamic" and op.get("stoichiometries") and snap is not None and "parameter" in names.get(op["name"], []):
        rx = set(snap["reaction"]) | {o for s in snap["surrogate"].values() for o, st in s.stoichiometries.items() if st}
        if any(r not in rx for r in op["stoichiometries"]):
            return "unknown_reaction"
    if k in ADD_OPS:
        n = op["name"]
        if n == "time":
            return "time"
        if n in names:
            kinds = names[n]
            return "dup:same" if ADD_OPS[k] in kinds else f"dup:{kinds[0]}"
        if k == "add_surrogate":
            outs = op.get("outputs", [])
            if len(set(outs)) != len(outs) or n in outs:
                return "outputs_clash_self"
            for o in outs:
                if o in names or o == "time":
                    return f"output_dup:{names.get(o, ['time'])[0]}"
        return "free"
    if k in TARGET_KIND:
        n = op["name"]
        if n in names:
            if TARGET_KIND[k] in names[n]:
                if k == "update_surrogate":
                    outs = op["new"]["outputs"] if op.get("new") else op.get("outputs")
                    if outs is not None:
                        for o in outs:
                            if o == "time":
                                return "output_dup:time"
                            if o in names and not (names[o] == ["surrogate_output"]):
                                return f"output_dup:{names[o][0]}"
                return "known"
            return f"wrong_kind:{names[n][0]}"
        return "unknown"
    if k in BATCH_OPS:
        single = k[:-1]  # add_parameters -> add_parameter
        # a mapping argument cannot repeat a key; a list of names can
        elems = list(dict.fromkeys(i[0] for i in op["items"])) if "items" in op else list(op["names"])
        seen: set[str] = set()
        for n in elems:
            if n in seen:
                return "batch:repeated"
            seen.add(n)
            c = cause_of({"op": single, "name": n}, names, snap)
            if is_name_cause(c):
                return f"batch:{c}"
        return "batch:ok"
    return "na"


# --------------------------------------------------------------------------
# generator (online: sees the real model's current names)
# --------------------------------------------------------------------------
class Gen:
    def __init__(self, rng: SimRng, cfg: dict) -> None:
        self.rng = rng
        self.cfg = cfg
        self.pool = cfg["pool"]
        self.recent_removed: list[str] = []
        self.box_values: dict = {}

    def num(self, label: str = "num") -> float:
        r = self.rng(label)
        if self.cfg["poison"] and r.random() < 0.12:
            return 0.0
        return r.randint(1, 12) / 4

    def fresh_name(self, names: dict) -> str:
        r = self.rng("names")
        free = [n for n in self.pool if n not in names]
        reuse = [n for n in self.recent_removed if n not in names]
        if reuse and r.random() < 0.6:
            return r.choice(reuse)
        if free:
            return r.choice(free)
        return r.choice(self.pool)

    def arg_names(self, names: dict, n: int, numeric_only: bool = True) -> list[str]:
        r = self.rng("args")
        cands = [
            x for x, ks in names.items()
            if not numeric_only or any(k in ("parameter", "variable", "derived", "reaction", "surrogate_output") for k in ks)
        ] + ["time"]
        out = []
        if n > 0 and r.random() < self.cfg.get("arity_slip", 0.0):
            n += r.choice([-1, 1])  # wrong number of arguments on purpose
        for _ in range(n):
            if r.random() < self.cfg["dangling"] or not cands:
                out.append(r.choice(self.pool))
            else:
                # prefer parameters/variables so that most models evaluate
                pv = [x for x in cands if x == "time" or any(k in ("parameter", "variable") for k in names.get(x, []))]
                out.append(r.choice(pv) if pv and r.random() < 0.7 else r.choice(cands))
        return out

    def scalar_fn(self) -> str:
        r = self.rng("fns")
        fns = [f for f in SCALAR_FNS if self.cfg["poison"] or f != "div"]
        return r.choice(fns)

    def boxed(self, names: dict) -> object:
        """A value for a batch op: sometimes a container object the caller keeps."""
        r = self.rng("boxes")
        if r.random() < self.cfg.get("box_rate", 0.0):
            key = r.choice(["P", "Q"])
            if key not in self.box_values:
                self.box_values[key] = self.num("boxnum") or 1.5
            return {"box": key, "value": self.box_values[key]}
        return self.value(names)

    def value(self, names: dict) -> object:
        r = self.rng("values")
        focus_data = self.cfg.get("focus") == "data"
        if r.random() < (0.6 if focus_data else self.cfg["ia_rate"]):
            data = [n for n, ks in names.items() if "data" in ks]
            if data and r.random() < (0.8 if focus_data else 0.3):
                # an initial assignment computed from a data set
                fn = r.choice(["dsum", "dscale"])
                return {"ia": fn, "args": [r.choice(data)] + self.arg_names(names, ARITY[fn] - 1)}
            fn = self.scalar_fn()
            return {"ia": fn, "args": self.arg_names(names, ARITY[fn])}
        return self.num()

    def stoich(self, names: dict, snap: dict) -> dict:
        r = self.rng("stoich")
        variables = list(snap["variable"])
        out: dict = {}
        k = r.randint(0, min(2, len(variables))) if variables else 0
        for v in r.sample(variables, k) if k else []:
            x = r.random()
            if x < 0.65:
                out[v] = r.choice([-2.0, -1.0, 1.0, 2.0, 0.5])
            elif x < 0.8 and snap["parameter"]:
                out[v] = r.choice(list(snap["parameter"]))
            else:
                fn = r.choice(["const", "neg", "half", "mul"])
                out[v] = {"derived": fn, "args": self.arg_names(names, ARITY[fn])}
        if r.random() < self.cfg["dangling"]:
            out[r.choice(self.pool)] = 1.0
        return out

    def surrogate_spec(self, names: dict, snap: dict, taken: set[str], collide: bool) -> dict:
        r = self.rng("surr")
        fn = r.choice([f for f in SURROGATE_FNS if self.cfg["poison"] or f != "two_out_div"])
        nout = SURROGATE_FNS[fn]
        outs = []
        for i in range(nout):
            free = [n for n in self.pool if n not in names and n not in taken and n not in outs]
            if collide and i == nout - 1 and names:
                outs.append(r.choice(sorted(names)))
            elif free:
                outs.append(r.choice(free))
            else:
                outs.append(r.choice(self.pool))
        st = {}
        variables = list(snap["variable"])
        if variables and r.random() < 0.7:
            st[outs[0]] = {r.choice(variables): r.choice([-1.0, 1.0, 2.0])}
        return {"fn": fn, "args": self.arg_names(names, ARITY[fn]), "outputs": outs, "stoichiometries": st}

    # ----------------------------------------------------------------
    def target(self, kind: str, snap: dict, names: dict, invalid: bool) -> str:
        """A target name for update/remove-like ops on `kind`."""
        r = self.rng("targets")
        own = list(snap[kind])
        if not invalid and own:
            return r.choice(own)
        x = r.random()
        others = [n for n, ks in names.items() if kind not in ks]
        if x < 0.6 and others:
            return r.choice(others)  # exists, but as another kind
        absent = [n for n in self.pool if n not in names]
        if absent:
            return r.choice(absent)
        return "nope"

    def query(self, snap: dict) -> dict:
        r = self.rng("queries")
        what = r.choice(self.cfg["queries"])
        q = {"op": "query", "what": what, "state": None if r.random() < 0.4 else r.randint(1, 6), "time": r.randint(0, 8) / 4}
        if what == "get_args_flags":
            q["flags"] = [r.random() < 0.6 for _ in FLAG_NAMES]
        if what == "args_time_course":
            q["readouts"] = r.random() < 0.5
        if what == "stoich_of_variable":
            vs = list(snap["variable"])
            q["name"] = r.choice(vs) if vs else "a"
        return q

    def mutator(self, kind: str, snap: dict, names: dict) -> dict:  # noqa: C901, PLR0911, PLR0912, PLR0915
        r = self.rng("ops")
        invalid = r.random() < self.cfg["reject_rate"]
        if kind in ADD_OPS:
            if invalid and names:
                x = r.random()
                name = "time" if x < 0.1 else r.choice(sorted(names))
            else:
                name = self.fresh_name(names)
            if kind == "add_parameter":
                return {"op": kind, "name": name, "value": self.value(names)}
            if kind == "add_variable":
                return {"op": kind, "name": name, "value": self.value(names)}
            if kind in ("add_derived", "add_readout"):
                p_data = 0.8 if self.cfg.get("focus") == "data" else 0.4
                fn = self.scalar_fn() if r.random() >= p_data or not snap["data"] else r.choice(["dsum", "dscale"])
                if fn in ("dsum", "dscale"):
                    dn = r.choice(list(snap["data"]))
                    args = [dn] + self.arg_names(names, ARITY[fn] - 1)
                else:
                    args = self.arg_names(names, ARITY[fn])
                return {"op": kind, "name": name, "fn": fn, "args": args}
            if kind == "add_reaction":
                fn = self.scalar_fn()
                return {"op": kind, "name": name, "fn": fn, "args": self.arg_names(names, ARITY[fn]), "stoichiometry": self.stoich(names, snap)}
            if kind == "add_surrogate":
                spec = self.surrogate_spec(names, snap, {name}, collide=invalid and r.random() < 0.7)
                if invalid and r.random() < 0.7 and name in names:
                    name = self.fresh_name(names | {o: ["x"] for o in spec["outputs"]}) if r.random() < 0.5 else name
                return {"op": kind, "name": name, **spec}
            if kind == "add_data":
                return {"op": kind, "name": name, "values": [self.num() for _ in range(r.randint(1, 3))]}
        if kind in BATCH_OPS:
            tk = BATCH_OPS[kind]
            n = r.randint(1, 3)
            if kind.startswith("add_"):
                items = []
                used: set[str] = set()
                for i in range(n):
                    bad = invalid and i == n - 1 and names
                    nm = r.choice(sorted(names)) if bad else self.fresh_name(names | {u: ["x"] for u in used})
                    used.add(nm)
                    items.append([nm, self.boxed(names)])
                return {"op": kind, "items": items}
            tnames = []
            for i in range(n):
                tnames.append(self.target(tk, snap, names, invalid and i == n - 1))
            # de-duplicate while keeping order (a dict argument cannot repeat a key)
            tnames = list(dict.fromkeys(tnames))
            if kind.startswith("remove_"):
                op = {"op": kind, "names": tnames}
                if r.random() < 0.4 and kind == "remove_variables":
                    # remove_variables is declared Iterable[str] (remove_parameters: list[str])
                    op["as"] = r.choice(["tuple", "generator", "iter", "map", "dict_keys"])
                return op
            if kind == "scale_parameters":
                return {"op": kind, "items": [[t, r.choice([0.5, 2.0, 1.5])] for t in tnames]}
            return {"op": kind, "items": [[t, self.boxed(names)] for t in tnames]}
        tk = TARGET_KIND[kind]
        name = self.target(tk, snap, names, invalid)
        if kind in ("remove_parameter", "remove_derived", "remove_reaction", "remove_readout", "remove_surrogate", "remove_data"):
            return {"op": kind, "name": name}
        if kind == "remove_variable":
            return {"op": kind, "name": name, "remove_stoichiometries": r.random() < 0.7}
        if kind in ("update_parameter", "update_variable"):
            return {"op": kind, "name": name, "value": self.value(names)}
        if kind == "scale_parameter":
            return {"op": kind, "name": name, "factor": r.choice([0.5, 2.0, 1.5, 0.25])}
        if kind == "make_parameter_dynamic":
            op: dict = {"op": kind, "name": name}
            if r.random() < 0.5:
                op["initial_value"] = self.num()
            if r.random() < 0.6:
                rx = list(snap["reaction"]) + [o for s in snap["surrogate"].values() for o in s.stoichiometries]
                if rx and not (invalid and r.random() < 0.6):
                    op["stoichiometries"] = {r.choice(rx): r.choice([-1.0, 1.0, 2.0])}
                else:
                    op["stoichiometries"] = {"no_such_rxn": 1.0}
            return op
        if kind == "make_variable_static":
            op = {"op": kind, "name": name}
            if r.random() < 0.5:
                op["value"] = self.num()
            return op
        if kind == "update_derived":
            op = {"op": kind, "name": name}
            x = r.random()
            if x < 0.6:
                fn = self.scalar_fn()
                op["fn"] = fn
                op["args"] = self.arg_names(names, ARITY[fn])
            else:
                # keep fn, change args only (same arity if the target exists)
                cur = snap["derived"].get(name)
                n = len(cur.args) if cur is not None else 1
                op["args"] = self.arg_names(names, n)
            return op
        if kind == "update_reaction":
            op = {"op": kind, "name": name}
            x = r.random()
            if x < 0.4:
                fn = self.scalar_fn()
                op["fn"] = fn
                op["args"] = self.arg_names(names, ARITY[fn])
            elif x < 0.6:
                cur = snap["reaction"].get(name)
                op["args"] = self.arg_names(names, len(cur.args) if cur is not None else 1)
            if x >= 0.5 or r.random() < 0.3:
                op["stoichiometry"] = self.stoich(names, snap)
            return op
        if kind == "update_surrogate":
            op = {"op": kind, "name": name}
            x = r.random()
            own_out = set(getattr(snap["surrogate"].get(name), "outputs", []))
            other_names = {k: v for k, v in names.items() if k not in own_out}
            if x < 0.45:
                op["new"] = self.surrogate_spec(other_names, snap, {name}, collide=invalid and r.random() < 0.7)
            elif x < 0.7:
                cur = snap["surrogate"].get(name)
                op["args"] = self.arg_names(names, len(cur.args) if cur is not None else 1)
            else:
                cur = snap["surrogate"].get(name)
                nout = len(cur.outputs) if cur is not None else 1
                spec = self.surrogate_spec(other_names, snap, {name}, collide=invalid and r.random() < 0.7)
                outs = (spec["outputs"] * 2)[:nout]
                if len(set(outs)) != len(outs):
                    outs = list(cur.outputs) if cur is not None else outs
                op["outputs"] = outs
                if r.random() < 0.5:
                    vs = list(snap["variable"])
                    op["stoichiometries"] = {outs[0]: {r.choice(vs): 1.0}} if vs else {}
            return op
        if kind == "update_data":
            return {"op": kind, "name": name, "values": [self.num() for _ in range(r.randint(1, 3))]}
        raise HarnessError(f"generator: unknown mutator {kind}")


def make_config(rng: SimRng, tier: str) -> dict:
    r = rng("config")
    n_ops = r.randint(8, 28 if tier == "quick" else 40)
    pool = r.sample(NAME_POOL, r.randint(7, 12))
    # swarm: a random subset of mutators, always >= 1 mutator of each "add" needed to make content
    muts = [m for m in MUTATORS if r.random() < 0.75]
    for must in ("add_parameter", "add_variable"):
        if must not in muts:
            muts.append(must)
    if not any(m in muts for m in ("add_reaction", "add_derived")):
        muts.append(r.choice(["add_reaction", "add_derived"]))
    queries = [q for q in QUERIES if r.random() < 0.75] or ["get_args_all"]
    focus = r.choice([None, None, *KINDS])
    if focus == "data":
        for must in ("add_data", "update_data", "remove_data", "update_parameter", "update_variable"):
            if must not in muts:
                muts.append(must)
    return {
        "n_ops": n_ops,
        "pool": pool,
        "mutators": sorted(muts),
        "queries": queries,
        "reject_rate": r.choice([0.1, 0.2, 0.25, 0.35]),
        "query_rate": r.choice([0.3, 0.45, 0.6]),
        "dangling": r.choice([0.0, 0.0, 0.03, 0.1]),
        "arity_slip": r.choice([0.0, 0.0, 0.04, 0.1]),
        "ia_rate": r.choice([0.0, 0.1, 0.25]),
        "poison": r.random() < 0.4,
        "warmup": r.randint(3, 6),
        # swarm focus: ops on one kind of component dominate this run
        "focus": focus,
        "clone_rate": r.choice([0.0, 0.0, 0.05, 0.1]),
        "box_rate": r.choice([0.0, 0.0, 0.3, 0.6]),
        "ephemeral_fns": r.random() < 0.25,
    }


ADD_WEIGHT = 2.0


# --------------------------------------------------------------------------
# executor + oracle
# --------------------------------------------------------------------------
class Executor:
    def __init__(self, prop: str, known: list[list[str]]) -> None:
        from mxlpy import Model

        self.prop = prop
        self.known = known
        self.m = Model()
        self.snap = snapshot(self.m)
        self.names = names_of(self.snap)
        self.trace = Trace()
        self.violations: list[dict] = []
        self.counters: Counter = Counter()
        self.memo_populated = False
        self.last_mutator = "none"
        self.shape: Counter = Counter()
        self.mut_then_query = False
        self.pending_mut = False
        self.i = -1
        self.namespace_ok = True
        self.boxes: dict = {}  # container objects the simulated caller keeps

    def _viol(self, check: str, sig: list[str], detail: str) -> None:
        v = violation(self.prop, check, sig, self.i, detail)
        self.violations.append(v)

    def stop(self) -> bool:
        """Stop the run after the first violation that is not a listed known finding."""
        return any(not any(sig_matches(k, v["signature"]) for k in self.known) for v in self.violations) or len(self.violations) >= 6

    def step(self, i: int, op: dict) -> None:
        self.i = i
        if op["op"] == "query":
            self.do_query(op)
        elif op["op"] == "clone":
            self.do_clone(op)
        else:
            self.do_mutation(op)

    # ----------------------------------------------------------------
    def do_mutation(self, op: dict) -> None:  # noqa: C901, PLR0912
        k = op["op"]
        pre, pre_names = self.snap, self.names
        pre_ids = dict(self.m.ids)
        cause = cause_of(op, pre_names, pre)
        # reference: the same op applied to a model freshly built from the pre-op content
        fresh = None
        if self.namespace_ok:
            try:
                fresh = rebuild(pre)
            except RebuildError:
                fresh = None
        was_populated = self.memo_populated
        out_m = outcome(apply_op, self.m, copy.deepcopy(op), self.boxes)
        post = snapshot(self.m)
        post_c = canon(post)
        post_ids = dict(self.m.ids)
        self.trace.add("mut", k, out_m[0], out_m[1] if out_m[0] == "exc" else None, digest_of(post_c))
        self.shape[(k, out_m[0])] += 1
        self.counters[f"mut:{k}:{out_m[0]}"] += 1
        if was_populated:
            self.counters[f"after_memo:{k}"] += 1
        if out_m[0] == "exc":
            self.counters[f"reject:{k}:{cause}"] += 1
        is_batch = k in BATCH_OPS

        # R1 rejected edit changes nothing
        if out_m[0] == "exc":
            changed = []
            if post_c != canon(pre):
                changed.append("content")
            if post_ids != pre_ids:
                changed.append("ids")
            if changed and is_name_cause(cause):
                check = "batch_partial" if is_batch else "rejected_edit_changed_state"
                self._viol(check, [check, k, cause, "+".join(changed)], f"{k} raised {out_m[1]} but {'+'.join(changed)} changed")
            elif changed:
                # failed for another reason than a name (e.g. the model does not evaluate):
                # outside what C03 states; counted, not charged
                self.counters[f"failed_for_other_reason_changed_state:{k}"] += 1
        # explicit: duplicate names must be refused
        if out_m[0] == "ok" and (k in ADD_OPS or (k in BATCH_OPS and k.startswith("add_"))) and is_name_cause(cause):
            self._viol("invalid_add_accepted", ["invalid_add_accepted", k, cause], f"{k}({op.get('name')!r}) accepted although {cause}")
        # R3 refinement of the op itself against the fresh model
        if fresh is not None:
            out_f = outcome(apply_op, fresh, copy.deepcopy(op))
            if out_m[0] != out_f[0]:
                self._viol(
                    "op_outcome_differs_from_fresh",
                    ["op_outcome_differs_from_fresh", k, cause, f"edited:{out_m[0]}", f"fresh:{out_f[0]}"],
                    f"{k}: edited model -> {out_m}, freshly built equal model -> {out_f}",
                )
            elif out_m[0] == "ok":
                post_f = canon(snapshot(fresh))
                if post_f != post_c:
                    self._viol("op_effect_differs_from_fresh", ["op_effect_differs_from_fresh", k, cause, "content"], f"{k}: content after the op differs between edited and fresh model")
                elif dict(fresh.ids) != post_ids:
                    self._viol("op_effect_differs_from_fresh", ["op_effect_differs_from_fresh", k, cause, "ids"], f"{k}: ids after the op differ between edited and fresh model")
        # R2 one name space
        names = names_of(post)
        multi = sorted(n for n, ks in names.items() if len(ks) > 1)
        self.namespace_ok = True
        if multi or "time" in names:
            self.namespace_ok = False
            self._viol("namespace", ["namespace", k, cause, "kinds_overlap"], f"after {k}: name(s) {multi} held by several components")
        else:
            try:
                rb = rebuild(post)
            except RebuildError as e:
                self.namespace_ok = False
                self._viol("namespace", ["namespace", k, cause, "rebuild_failed"], f"content after {k} cannot be rebuilt: {e}")
            else:
                ids_f = dict(rb.ids)
                if ids_f != post_ids:
                    extra = sorted(set(post_ids) - set(ids_f))
                    missing = sorted(set(ids_f) - set(post_ids))
                    what = "ids_extra" if extra else ("ids_missing" if missing else "ids_kind")
                    self.namespace_ok = False
                    self._viol("namespace", ["namespace", k, cause, what], f"after {k}: ids extra={extra} missing={missing}")
        if out_m[0] == "ok":
            # the one thing no refinement against an equally-built model can see: an accepted
            # edit that did nothing.  An accepted remove leaves none of its names behind under
            # the kind it removes; an accepted add leaves all of its names in place.
            tk = BATCH_OPS.get(k) or TARGET_KIND.get(k) or ADD_OPS.get(k)
            touched = [op["name"]] if "name" in op else (list(op.get("names") or []) or [i[0] for i in op.get("items", [])])
            if k.startswith("remove_") and tk:
                left = [n for n in touched if tk in names.get(n, [])]
                if left:
                    self._viol("accepted_edit_did_nothing", ["accepted_edit_did_nothing", k, op.get("as", "list")], f"{k}({touched}) was accepted but {left} are still there")
            elif k.startswith("add_") and k != "add_surrogate":
                gone = [n for n in touched if n not in names]
                if gone:
                    self._viol("accepted_edit_did_nothing", ["accepted_edit_did_nothing", k, "list"], f"{k}({touched}) was accepted but {gone} are not in the model")
            self.last_mutator = k
            self.pending_mut = True
            self.scribbled = False
            if k.startswith("remove_") or k.startswith("make_"):
                freed = [n for n in pre_names if n not in names]
                if freed:
                    self.counters["names_freed"] += len(freed)
            if k in ADD_OPS and op.get("name") in getattr(self, "_freed_once", set()):
                self.counters["name_reuse"] += 1
            self._freed_once = getattr(self, "_freed_once", set()) | {n for n in pre_names if n not in names}
        self.snap, self.names = post, names

    # ----------------------------------------------------------------
    def do_clone(self, op: dict) -> None:
        """The history continues on a copy of the model (deepcopy, or a pickle round trip as
        every pool task does): the copy carries the memo and the id registry with it."""
        import pickle

        how = op.get("how", "deepcopy")
        try:
            clone = copy.deepcopy(self.m) if how == "deepcopy" else pickle.loads(pickle.dumps(self.m))  # noqa: S301
        except Exception as e:  # noqa: BLE001
            self.trace.add("clone", how, "exc", type(e).__name__)
            self.counters[f"clone_failed:{type(e).__name__}"] += 1
            return
        post = snapshot(clone)
        if canon(post) != canon(self.snap) or dict(clone.ids) != dict(self.m.ids):
            self._viol("clone_differs", ["clone_differs", how], f"a {how} copy of the model has different content or ids")
        self.m = clone
        self.counters[f"clone:{how}"] += 1
        self.trace.add("clone", how, "ok")

    def do_query(self, q: dict) -> None:
        what = q["what"]
        try:
            fresh = rebuild(self.snap)
        except RebuildError:
            self.trace.add("query", what, "skipped")
            return
        out_m = outcome(run_query, self.m, q)
        out_f = outcome(run_query, fresh, q)
        if out_m[0] == "ok":
            self.memo_populated = True
            self.counters["query_ok"] += 1
        else:
            self.counters[f"query_exc:{out_m[1]}"] += 1
            if out_m[1] == "ZeroDivisionError":
                self.counters["poisoned_query"] += 1
        d = diff_outcomes(out_m, out_f)
        self.trace.add("query", what, out_m[0], out_m[1] if out_m[0] == "exc" else digest_of(canon(out_m[1])))
        self.shape[("query", out_m[0])] += 1
        self.counters[f"query:{what}"] += 1
        if self.pending_mut:
            self.mut_then_query = True
        if what == "mutate_returned":
            self.scribbled = True
            self.counters["probe:caller_scribbled_on_returned_dicts"] += 1
        if d is not None:
            blame = "caller_scribbled_on_returned_dicts" if getattr(self, "scribbled", False) and what != "mutate_returned" else self.last_mutator
            self._viol(
                "stale_answer",
                ["stale_answer", blame, f"query:{what}", d],
                f"query {what} after {self.last_mutator}: edited model -> {_short(out_m)}, fresh model with the same content -> {_short(out_f)}",
            )
        # a repeated query must not depend on the previous one either
        out_m2 = outcome(run_query, self.m, q)
        d2 = diff_outcomes(out_m2, out_f)
        if d is None and d2 is not None:
            self._viol("stale_answer", ["stale_answer", "repeat_query", f"query:{what}", d2], f"second identical query {what} differs from fresh model")


def _short(o) -> str:  # noqa: ANN001
    if o[0] == "exc":
        return f"raises {o[1]}"
    s = str(canon(o[1]))
    return s[:120]


class EditsMachine(Machine):
    name = "edits"
    properties = ("C03",)
    runs = {"quick": 8000, "thorough": 400000}
    run_timeout = 60.0
    rule = (
        "one run = one seeded history of public Model edits (single and batch mutators, ~25% intentionally "
        "rejected, poisoned functions, dangling args) interleaved with queries on ONE model object; oracle = a model "
        "freshly rebuilt from the edited model's own content after every op. distinct = distinct SET of "
        "(op kind, outcome) pairs occurring in the history (counts ignored); non-trivial = at least one successful mutation after the memo was populated, followed by a query"
    )
    real_components = ["mxlpy.Model (all mutators, memo, id bookkeeping, queries)", "mxlpy.surrogates.qss.Surrogate"]
    stub_components = ["none (in a quarter of the runs the harness hands the model fresh copies of its library functions, so that no function object outlives its use in the model)"]
    assumptions = [
        "a model rebuilt through add_* from get_raw_* copies is 'a freshly built model with the same content'",
        "exception class equality is only demanded between the edited model and its fresh rebuild (same code path)",
        "data sets are read through Model._data (no public getter)",
    ]

    def run_seed(self, seed: int, tier: str, known: list[list[str]]) -> RunResult:
        rng = SimRng(seed)
        cfg = make_config(rng, tier)
        gen = Gen(rng, cfg)
        EPHEMERAL[0] = bool(cfg.get("ephemeral_fns"))
        ex = Executor(self.prop, known)
        ops: list[dict] = []
        r = rng("plan")
        for i in range(cfg["n_ops"]):
            snap, names = ex.snap, ex.names
            if i == 0 and cfg.get("focus") == "data":
                op = gen.mutator("add_data", snap, names)  # data-focused runs start with a data set
            elif i < cfg["warmup"]:
                kinds = [k for k in ("add_parameter", "add_variable", "add_reaction", "add_derived") if k in cfg["mutators"]]
                op = gen.mutator(r.choice(kinds), snap, names)
            elif r.random() < cfg.get("clone_rate", 0.0):
                op = {"op": "clone", "how": r.choice(["deepcopy", "pickle"])}
                if cfg.get("ephemeral_fns"):
                    op["how"] = "deepcopy"  # functions that no module attribute refers to cannot be pickled
            elif r.random() < cfg["query_rate"]:
                op = gen.query(snap)
            else:
                focus = cfg.get("focus")
                kind = rng.weighted(
                    "plan",
                    [
                        (m, (ADD_WEIGHT if m.startswith("add_") else 1.0) * (5.0 if focus and focus in m else 1.0))
                        for m in cfg["mutators"]
                    ],
                )
                op = gen.mutator(kind, snap, names)
            ops.append(op)
            ex.step(i, op)
            if ex.stop():
                break
            # remember freed names for re-use bias
            gen.recent_removed = [n for n in names if n not in ex.names][:3] or gen.recent_removed
        else:
            # final battery of queries
            for what in ("get_args_all", "rhs", "names"):
                op = {"op": "query", "what": what, "state": None, "time": 0.0}
                ops.append(op)
                ex.step(len(ops) - 1, op)
                if ex.stop():
                    break
        case = {"seed": seed, "config": cfg, "ops": ops}
        return self._result(case, ex)

    def replay(self, case: dict, known: list[list[str]]) -> RunResult:
        EPHEMERAL[0] = bool((case.get("config") or {}).get("ephemeral_fns"))
        ex = Executor(self.prop, known)
        for i, op in enumerate(case["ops"]):
            ex.step(i, op)
            if ex.stop():
                break
        return self._result(case, ex)

    def _result(self, case: dict, ex: Executor) -> RunResult:
        shape = digest_of(sorted(f"{a}:{b}" for (a, b) in ex.shape))
        return RunResult(
            case=case,
            violations=ex.violations,
            digest=ex.trace.digest(),
            counters=ex.counters,
            shape=shape,
            nontrivial=ex.mut_then_query and ex.memo_populated,
            sim_time=0.0,
            steps=ex.trace.n,
        )

    def simplifications(self, case: dict):  # noqa: ANN201
        ops = case["ops"]
        for i, op in enumerate(ops):
            # simpler values
            for key in ("value",):
                if isinstance(op.get(key), dict):
                    new = copy.deepcopy(case)
                    new["ops"][i][key] = 1.0
                    yield new
            if op["op"] == "query" and op.get("state") is not None:
                new = copy.deepcopy(case)
                new["ops"][i]["state"] = None
                new["ops"][i]["time"] = 0.0
                yield new
            if op["op"] in BATCH_OPS:
                items = op.get("items") or op.get("names")
                if items and len(items) > 1:
                    for j in range(len(items)):
                        new = copy.deepcopy(case)
                        key = "items" if "items" in op else "names"
                        new["ops"][i][key] = items[:j] + items[j + 1 :]
                        yield new
            if op.get("stoichiometry"):
                new = copy.deepcopy(case)
                new["ops"][i]["stoichiometry"] = {}
                yield new

    def under_reach(self, counters: Counter, tier: str) -> list[str]:  # noqa: ARG002
        missing = [m for m in MUTATORS if counters.get(f"after_memo:{m}", 0) == 0]
        return [f"mutators never executed after a populated memo: {missing}"] if missing else []
