"""C09 — scans equal independent runs, row-aligned, under any scheduling (DESIGN §4.3)."""

from __future__ import annotations

import copy
from collections import Counter

import numpy as np

from simkit import integrators, models, simpool
from simkit.core import HarnessError, Machine, RunResult, Trace, canon, diff_values, digest_of, sig_matches, violation
from simkit.rng import SimRng

KINDS = [
    "scan.steady_state", "scan.time_course", "scan.protocol", "scan.protocol_time_course",
    "mc.steady_state", "mc.time_course", "mc.protocol", "mc.protocol_time_course", "mc.scan_steady_state",
]


def _integrator(case: dict):  # noqa: ANN202
    if case.get("poison"):
        return integrators.FaultyFactory(case["integrator"], tuple(case["poison"]))
    return integrators.inner_type(case["integrator"])


def _table(case: dict):  # noqa: ANN202
    import pandas as pd

    rows = case["ops"]
    cols = case["columns"]
    data = [[float(r["values"][c]) for c in cols] for r in rows]
    labels = [r["label"] for r in rows]
    if case.get("default_labels"):
        return pd.DataFrame(data, columns=cols)
    return pd.DataFrame(data, columns=cols, index=pd.Index(labels))


def _protocol(case: dict):  # noqa: ANN202
    from mxlpy import make_protocol

    return make_protocol([(float(d), {k: float(v) for k, v in pv.items()}) for d, pv in case["protocol"]])


def run_scan(case: dict, model, sched: dict, cache_dir=None, rows=None, kept: dict | None = None):  # noqa: ANN001, ANN201
    """Run the scan under one schedule; returns the scan result object.
    cache_dir: use a result cache there; rows: restrict the table to these row positions;
    kept: the simulated caller's own argument objects (table, grid, y0, protocol), created once
    and passed again to every schedule - whatever the library scribbles on them comes back."""
    from mxlpy import mc, scan
    from mxlpy.parallel import Cache

    kind = case["kind"]
    if kept is not None and rows is None:
        if "tab" not in kept:
            kept["tab"] = _table(case)
            kept["y0"] = dict(case["y0"]) if case.get("y0") else None
            kept["tp"] = np.array(case.get("time_points", [0.0, 1.0]), dtype=float)
        tab, y0, tp = kept["tab"], kept["y0"], kept["tp"]
    else:
        tab = _table(case)
        if rows is not None:
            tab = tab.iloc[list(rows)]
        y0 = dict(case["y0"]) if case.get("y0") else None
        tp = np.array(case.get("time_points", [0.0, 1.0]), dtype=float)
    ck = {"cache": Cache(tmp_dir=cache_dir)} if cache_dir is not None else {}
    integ = _integrator(case)
    par = sched["mode"] == "pool"
    if kind.startswith("mc.") and not par:
        raise HarnessError("mc.* has no sequential mode")
    if par:
        simpool.install(simpool.PoolPlan(workers=sched["W"], seed=sched["seed"], die_tasks=tuple(sched.get("die", ()))))
    try:
        if kind == "scan.steady_state":
            return scan.steady_state(model, to_scan=tab, y0=y0, parallel=par, integrator=integ, rel_norm=False, **ck)
        if kind == "scan.time_course":
            return scan.time_course(model, to_scan=tab, time_points=tp, y0=y0, parallel=par, integrator=integ, **ck)
        if kind == "scan.protocol":
            return scan.protocol(model, to_scan=tab, protocol=_protocol(case), time_points_per_step=case.get("tpps", 3), y0=y0, parallel=par, integrator=integ, **ck)
        if kind == "scan.protocol_time_course":
            return scan.protocol_time_course(model, to_scan=tab, protocol=_protocol(case), time_points=tp, y0=y0, parallel=par, integrator=integ, **ck)
        if kind == "mc.steady_state":
            return mc.steady_state(model, mc_to_scan=tab, y0=y0, max_workers=sched["W"], integrator=integ, **ck)
        if kind == "mc.time_course":
            return mc.time_course(model, time_points=tp, mc_to_scan=tab, y0=y0, max_workers=sched["W"], integrator=integ, **ck)
        if kind == "mc.protocol":
            return mc.protocol(model, protocol=_protocol(case), mc_to_scan=tab, y0=y0, time_points_per_step=case.get("tpps", 3), max_workers=sched["W"], integrator=integ, **ck)
        if kind == "mc.protocol_time_course":
            return mc.protocol_time_course(model, protocol=_protocol(case), time_points=tp, mc_to_scan=tab, y0=y0, max_workers=sched["W"], integrator=integ, **ck)
        if kind == "mc.scan_steady_state":
            import pandas as pd

            inner = pd.DataFrame({case["inner"]["column"]: [float(v) for v in case["inner"]["values"]]})
            return mc.scan_steady_state(model, to_scan=inner, mc_to_scan=tab, y0=y0, max_workers=sched["W"], integrator=integ, **ck)
        raise HarnessError(kind)
    finally:
        if par:
            simpool.uninstall()


def independent_row(case: dict, values: dict, extra: dict | None = None):  # noqa: ANN201
    """A separate simulation of a fresh model with exactly this row's values.
    Returns ("ok", variables_df, fluxes_df) or ("fail", reason)."""
    from mxlpy import Simulator

    m = models.scan_model(case["model"])
    if case.get("y0"):
        m.update_variables(dict(case["y0"]))
    allv = dict(values)
    if extra:
        allv.update(extra)
    vs = {k: float(v) for k, v in allv.items() if k in m.get_variable_names()}
    ps = {k: float(v) for k, v in allv.items() if k in m.get_parameter_names()}
    m.update_variables(vs)
    m.update_parameters(ps)
    kind = case["kind"].split(".", 1)[1]
    tp = np.array(case.get("time_points", [0.0, 1.0]), dtype=float)
    try:
        s = Simulator(m, integrator=_integrator(case))
        if kind in ("steady_state", "scan_steady_state"):
            s.simulate_to_steady_state()
        elif kind == "time_course":
            s.simulate_time_course(tp)
        elif kind == "protocol":
            s.simulate_protocol(_protocol(case), time_points_per_step=case.get("tpps", 3))
        else:
            s.simulate_protocol_time_course(_protocol(case), tp)
        res = s.get_result()
    except ZeroDivisionError:
        return ("fail", "ZeroDivisionError")
    if isinstance(res.value, Exception):
        return ("fail", type(res.value).__name__)
    sim = res.value
    return ("ok", sim.variables, sim.fluxes)


class Exec:
    def __init__(self, prop: str, case: dict, known: list[list[str]]) -> None:
        self.prop = prop
        self.case = case
        self.known = known
        self.trace = Trace()
        self.violations: list[dict] = []
        self.counters: Counter = Counter()
        self.shape: set = set()
        self.vt = 0.0
        self.i = 0
        self._oracle: dict = {}
        self.kept: dict = {}  # the simulated caller's argument objects, re-used by every schedule

    def _viol(self, check: str, sig: list[str], detail: str) -> None:
        self.violations.append(violation(self.prop, check, sig, self.i, detail))

    def stop(self) -> bool:
        return any(not any(sig_matches(k, v["signature"]) for k in self.known) for v in self.violations)

    def oracle(self, j: int, extra: dict | None = None):  # noqa: ANN201
        key = (j, tuple(sorted((extra or {}).items())))
        if key not in self._oracle:
            self._oracle[key] = independent_row(self.case, self.case["ops"][j]["values"], extra)
        return self._oracle[key]

    # ------------------------------------------------------------------
    def run(self) -> None:
        case = self.case
        labels = [r["label"] for r in case["ops"]]
        unique = len(set(map(str, labels))) == len(labels) or case.get("default_labels")
        self.labclass = "labels:unique" if unique else "labels:non_unique"
        outs = []
        for si, sched in enumerate(case["schedules"]):
            self.i = si
            out = self.one_schedule(sched)
            outs.append(out)
            if self.stop():
                return
        # identical across schedules
        ok = [(s, o) for s, o in zip(case["schedules"], outs, strict=True) if o is not None]
        for (s1, o1), (s2, o2) in zip(ok, ok[1:], strict=False):
            for view in ("variables", "fluxes"):
                if view in o1 and view in o2:
                    d = diff_values(o1[view], o2[view], rtol=1e-9, atol=1e-12)
                    if d is not None:
                        self._viol("schedule_dependent", ["schedule_dependent", case["kind"], f"{s1['mode']}_vs_{s2['mode']}", f"view:{view}", f"model:{case['model']}", self.labclass], f"{view} differ between schedule {s1} and {s2} ({d})")
                        return

    def one_schedule(self, sched: dict):  # noqa: ANN201, C901, PLR0911, PLR0912, PLR0915
        case = self.case
        kind = case["kind"]
        mode = f"mode:{'sequential' if sched['mode'] == 'seq' else 'pool'}"
        n = len(case["ops"])
        self.shape.add((kind, sched["mode"], "W<n" if sched.get("W", 1) < n else ("W=n" if sched.get("W", 1) == n else "W>n"), case["reads"]["order"], bool(case.get("poison")), bool(sched.get("die"))))
        self.counters[f"schedule:{sched['mode']}"] += 1
        if sched["mode"] == "pool":
            w = sched["W"]
            self.counters["rows<W" if n < w else ("rows=W" if n == w else "rows>W")] += 1
        if case.get("keep_model"):
            # the caller keeps ONE model object and scans it again and again
            if "model" not in self.kept:
                self.kept["model"] = models.scan_model(case["model"])
            else:
                self.counters["probe:same_model_object_scanned_again"] += 1
            model = self.kept["model"]
        else:
            model = models.scan_model(case["model"])
        cache_dir = None
        if case.get("cache_prefill") is not None and self.labclass == "labels:unique":
            import os
            import shutil
            from pathlib import Path

            # a result cache that an earlier scan over SOME of the rows has partly filled
            cache_dir = Path(os.environ.get("SIMKIT_SCRATCH") or "/tmp") / "scancache" / f"{os.getpid()}-{self.i}-{id(self) % 100000}"  # noqa: S108
            shutil.rmtree(cache_dir, ignore_errors=True)
            pre = [j for j in case["cache_prefill"] if j < n]
            self.counters["schedule_with_partly_filled_cache"] += 1
            try:
                if pre:
                    run_scan(case, models.scan_model(case["model"]), sched, cache_dir=cache_dir, rows=pre)
            except Exception:  # noqa: BLE001
                cache_dir = None
        try:
            res = run_scan(case, model, sched, cache_dir=cache_dir, kept=self.kept)
        except HarnessError:
            raise
        except Exception as e:  # noqa: BLE001
            self.trace.add("scan", sched, "exc", type(e).__name__)
            if sched.get("die"):
                self.counters["fault_fired:worker_death"] += 1
                return None  # a dead worker may abort the call (never corrupt it)
            self._viol("scan_raised", ["scan_raised", kind, mode, type(e).__name__, self.labclass], f"{kind} under {sched} raised {type(e).__name__}: {str(e)[:120]}")
            return None
        if sched["mode"] == "pool" and simpool.CURRENT is None:
            pass
        # ---- read the lazily evaluated views in the seeded order --------------
        reads = case["reads"]
        if reads.get("edit_before_read") and not case.get("keep_model"):
            # the caller goes on working with ITS model before looking at the result: the result
            # belongs to the scan that was run, not to what the model is turned into afterwards
            try:
                if reads["edit_before_read"] == "reaction":
                    model.update_reaction("v1", fn=models.double_ma1)
                else:
                    pn = models.SCAN_MODELS[case["model"]][0][0]
                    model.update_parameter(pn, float(model.get_parameter_values().get(pn, 1.0)) * 3.0 + 1.0)
                self.counters["caller_edited_model_between_scan_and_first_read"] += 1
            except Exception as e:  # noqa: BLE001
                self.trace.add("edit_before_read", "exc", type(e).__name__)
        views: dict = {}
        order = ["variables", "fluxes"] if reads["order"] == "vf" else ["fluxes", "variables"]
        for rep in range(2 if reads.get("twice") else 1):
            for view in order:
                try:
                    val = getattr(res, view)
                except Exception as e:  # noqa: BLE001
                    self.trace.add("read", view, "exc", type(e).__name__)
                    self._viol("view_unreadable", ["view_unreadable", kind, mode, f"view:{view}", type(e).__name__, "fault:" + self.fault_kind(), self.labclass], f"reading .{view} of the {kind} result raised {type(e).__name__}: {str(e)[:100]}")
                    return None
                if rep == 1:
                    d = diff_values(val, views[view], rtol=0.0, atol=0.0)
                    if d is not None:
                        self._viol("reread_differs", ["reread_differs", kind, mode, f"view:{view}"], f"second read of .{view} differs from the first ({d})")
                        return None
                views[view] = val
        self.trace.add("scan", sched, digest_of(canon(views["variables"])), digest_of(canon(views["fluxes"])))
        if cache_dir is not None:
            import shutil

            shutil.rmtree(cache_dir, ignore_errors=True)
        self.check_rows(views, mode)
        return views

    def fault_kind(self) -> str:
        case = self.case
        if case.get("poison"):
            return "poison"
        if case["model"] == "S3" and any(r["values"].get("kd") == 0 for r in case["ops"]):
            return "zero_division"
        return "none"

    # ------------------------------------------------------------------
    def expected_labels(self) -> list:
        case = self.case
        kind = case["kind"].split(".", 1)[1]
        rows = case["ops"]
        if kind == "steady_state":
            cols = case["columns"]
            if len(cols) == 1:
                return [float(r["values"][cols[0]]) for r in rows]
            return [tuple(float(r["values"][c]) for c in cols) for r in rows]
        if case.get("default_labels"):
            return list(range(len(rows)))
        return [r["label"] for r in rows]

    def check_rows(self, views: dict, mode: str) -> None:  # noqa: C901, PLR0912, PLR0915
        case = self.case
        kind = case["kind"]
        sub = kind.split(".", 1)[1]
        rows = case["ops"]
        model_tag = f"model:{case['model']}"
        for view in ("variables", "fluxes"):
            df = views[view]
            if sub == "steady_state":
                want_labels = self.expected_labels()
                got_labels = [tuple(float(v) for v in i) if isinstance(i, tuple) else float(i) for i in df.index.tolist()]
                if len(df) != len(rows):
                    self._viol("rows_lost", ["rows_lost", kind, mode, self.labclass], f".{view} has {len(df)} rows for {len(rows)} table rows")
                    return
                if got_labels != want_labels:
                    self._viol("row_order", ["row_order", kind, mode, f"view:{view}"], f".{view} index {got_labels} != scanned values in table order {want_labels}")
                    return
                for j in range(len(rows)):
                    if not self.compare_row(j, view, df.iloc[[j]], mode, model_tag, last_only=True):
                        return
            elif sub == "scan_steady_state":
                inner = case["inner"]
                want_outer = self.expected_labels()
                ni = len(inner["values"])
                if len(df) != len(rows) * ni:
                    self._viol("rows_lost", ["rows_lost", kind, mode, self.labclass], f".{view} has {len(df)} rows for {len(rows)}x{ni}")
                    return
                got = df.index.tolist()
                want = [(lo, float(v)) for lo in want_outer for v in inner["values"]]
                if [(a, float(b)) for a, b in got] != want:
                    self._viol("row_order", ["row_order", kind, mode, f"view:{view}"], f".{view} index {got[:6]}.. != {want[:6]}..")
                    return
                for j in range(len(rows)):
                    for ii, v in enumerate(inner["values"]):
                        o = self.oracle(j, {inner["column"]: float(v)})
                        got_row = df.iloc[[j * ni + ii]]
                        if not self.compare_frames(o, view, got_row, j, mode, model_tag, last_only=True):
                            return
            else:
                want_outer = self.expected_labels()
                outer = list(dict.fromkeys(df.index.get_level_values(0).tolist()))
                if len(outer) != len(rows):
                    self._viol("rows_lost", ["rows_lost", kind, mode, self.labclass], f".{view} holds {len(outer)} runs for {len(rows)} table rows")
                    return
                if outer != want_outer:
                    self._viol("row_order", ["row_order", kind, mode, f"view:{view}"], f".{view} outer index {outer} != table row labels in order {want_outer}")
                    return
                for j, lab in enumerate(want_outer):
                    if not self.compare_row(j, view, df.xs(lab, level=0), mode, model_tag, last_only=False):
                        return

    def compare_row(self, j: int, view: str, got, mode: str, model_tag: str, *, last_only: bool) -> bool:  # noqa: ANN001
        return self.compare_frames(self.oracle(j), view, got, j, mode, model_tag, last_only=last_only)

    def compare_frames(self, o, view: str, got, j: int, mode: str, model_tag: str, *, last_only: bool) -> bool:  # noqa: ANN001
        case = self.case
        kind = case["kind"]
        n = len(case["ops"])
        pos = "first" if j == 0 else ("last" if j == n - 1 else "middle")
        gv = got.to_numpy(dtype=float)
        if o[0] == "fail":
            self.counters[f"fault_fired:row_failure:{o[1]}"] += 1
            # NaN placeholder: the state variables must read NaN.  Quantities that do not
            # depend on the state (a constant influx, a derived parameter) may legitimately
            # evaluate to numbers on a NaN state, so nothing is demanded of the flux view's values.
            if view == "variables":
                vn = [c for c in models.SCAN_MODELS[case["model"]][1] if c in got.columns]
                sv = got.loc[:, vn].to_numpy(dtype=float)
                if not np.all(np.isnan(sv)):
                    self._viol("failed_row_not_nan", ["failed_row_not_nan", kind, mode, f"view:{view}", f"fault:{o[1]}"], f"row {j} fails in an independent run ({o[1]}) but its variables read {sv.tolist()[:2]} instead of NaN")
                    return False
            if not last_only:
                # shape: the time grid a successful run of the same request would have produced
                want_t = self.expected_grid()
                got_t = [float(t) for t in got.index.tolist()]
                if got_t != want_t and got_t != want_t[1:]:
                    self._viol("failed_row_shape", ["failed_row_shape", kind, mode, f"view:{view}"], f"NaN placeholder of row {j} has time points {got_t[:8]} (n={len(got_t)}), a successful row has {want_t[:8]} (n={len(want_t)})")
                    return False
            return True
        want = o[1] if view == "variables" else o[2]
        if last_only:
            want = want.iloc[[-1]]
        wv = want.to_numpy(dtype=float)
        if list(got.columns) != list(want.columns):
            self._viol("row_mismatch", ["row_mismatch", kind, mode, f"view:{view}", model_tag, "columns"], f"row {j}: columns {list(got.columns)} != {list(want.columns)}")
            return False
        if gv.shape != wv.shape:
            self._viol("row_mismatch", ["row_mismatch", kind, mode, f"view:{view}", model_tag, "shape"], f"row {j}: shape {gv.shape} != independent run {wv.shape}")
            return False
        if not last_only and not np.allclose(np.asarray(got.index, dtype=float), np.asarray(want.index, dtype=float), rtol=0, atol=1e-12):
            self._viol("row_mismatch", ["row_mismatch", kind, mode, f"view:{view}", model_tag, "time"], f"row {j}: time axis differs from independent run")
            return False
        if not np.allclose(gv, wv, rtol=1e-9, atol=1e-12, equal_nan=True):
            k = int(np.argmax(~np.isclose(gv, wv, rtol=1e-9, atol=1e-12, equal_nan=True)))
            self._viol(
                "row_mismatch", ["row_mismatch", kind, mode, f"view:{view}", model_tag, "value", f"row:{pos}"],
                f"row {j} ({case['ops'][j]['values']}): .{view} = {gv.ravel()[k]} where an independent simulation of a fresh model with this row's values gives {wv.ravel()[k]} (column {list(got.columns)[k % gv.shape[1]]})",
            )
            return False
        self.counters["rows_compared"] += 1
        return True

    def expected_grid(self) -> list[float]:
        """Time grid of a successful run of the same request (from a row that succeeds, else derived)."""
        for j in range(len(self.case["ops"])):
            o = self.oracle(j)
            if o[0] == "ok":
                return [float(t) for t in o[1].index.tolist()]
        case = self.case
        sub = case["kind"].split(".", 1)[1]
        tp = [float(t) for t in case.get("time_points", [0.0, 1.0])]
        if sub == "time_course":
            return tp if tp[0] == 0.0 else [0.0, *tp]
        # derive from a healthy configuration of the same request
        c2 = dict(case, poison=[], model="S1" if case["model"] == "S3" else case["model"])
        o = independent_row(c2, {})
        if o[0] == "ok":
            return [float(t) for t in o[1].index.tolist()]
        return tp


# --------------------------------------------------------------------------
# generation
# --------------------------------------------------------------------------
def gen_case(rng: SimRng, tier: str, avoid: dict) -> dict:  # noqa: ARG001, C901, PLR0912, PLR0915
    r = rng("case")
    kind = r.choice(KINDS)
    model = rng.weighted("case", [("S1", 3), ("S2", 4), ("S3", 1.5), ("S4", 2)])
    pnames, vnames = models.SCAN_MODELS[model]
    sub = kind.split(".", 1)[1]
    ncols = r.choice([1, 1, 2, 3])
    pool = pnames + vnames
    cols = r.sample(pool, min(ncols, len(pool)))
    if model == "S2" and r.random() < 0.7 and not any(c in vnames for c in cols):
        cols[0] = r.choice(vnames)  # scan an initial value: the assignment-defined parameter follows it
    if model == "S3" and "kd" not in cols and r.random() < 0.6:
        cols[0] = "kd"
    nrows = r.randint(1, 8 if sub not in ("scan_steady_state",) else 4)
    label_style = r.choice(["default", "default", "str", "int_custom", "non_unique"]) if not avoid.get("non_unique") else r.choice(["default", "str", "int_custom"])
    if r.random() < 0.85 and label_style == "non_unique":
        label_style = "default"
    poison_on = r.random() < 0.25 and model != "S3"
    rows = []
    poison: list[float] = []
    for j in range(nrows):
        vals = {}
        for c in cols:
            v = r.choice([0.25, 0.5, 0.75, 1.0, 1.5, 2.0, 3.0])
            vals[c] = v
        if model == "S3" and "kd" in cols and r.random() < 0.3 and not avoid.get("zero_div"):
            vals["kd"] = 0.0
        if label_style == "default":
            lab = j
        elif label_style == "str":
            lab = f"run{j}"
        elif label_style == "int_custom":
            lab = 10 + 3 * j
        else:
            lab = j // 2
        rows.append({"label": lab, "values": vals})
    if poison_on:
        pcols = [c for c in cols if c in pnames]
        if pcols:
            victim = r.choice(rows)
            pv = 7.0 + r.randint(0, 3)  # a value no healthy row uses
            victim["values"][pcols[0]] = pv
            poison = [pv]
    if sub == "steady_state" and len({tuple(r_["values"][c] for c in cols) for r_ in rows}) < len(rows):
        # steady-state scans are indexed by value; keep values distinct so that rows are attributable
        seen = set()
        rows = [r_ for r_ in rows if not (tuple(r_["values"][c] for c in cols) in seen or seen.add(tuple(r_["values"][c] for c in cols)))]
    case: dict = {
        "kind": kind, "model": model, "columns": cols, "ops": rows,
        "default_labels": label_style == "default",
        "integrator": r.choice(["exact", "exact", "scipy"]),
        "poison": poison,
        "y0": None,
    }
    if r.random() < 0.35:
        case["y0"] = {v: r.choice([0.5, 1.0, 2.5]) for v in r.sample(vnames, r.randint(1, len(vnames)))}
    if sub in ("time_course", "protocol_time_course"):
        grid = sorted(r.sample([0.0, 0.25, 0.5, 1.0, 1.5, 2.0, 3.0], r.randint(2, 4)))
        if r.random() < 0.4 and grid[0] == 0.0:
            grid = grid[1:] if len(grid) > 2 else grid
        case["time_points"] = grid
    if sub in ("protocol", "protocol_time_course"):
        pn = r.choice([p for p in pnames if p != "kd"])
        case["protocol"] = [[r.choice([0.5, 1.0, 1.5]), {pn: r.choice([0.5, 1.0, 2.0])}] for _ in range(r.randint(1, 3))]
        case["tpps"] = r.choice([1, 3, 5])
        if pn in cols:
            pass  # the protocol overrides a scanned parameter: still well defined (protocol wins)
    if sub == "scan_steady_state":
        inner_col = r.choice([p for p in pnames if p not in cols and p != "kd"] or pnames)
        case["inner"] = {"column": inner_col, "values": sorted(r.sample([0.5, 1.0, 1.5, 2.0], r.randint(1, 3)))}
    # schedules
    scheds = []
    if kind.startswith("scan."):
        scheds.append({"mode": "seq"})
    for _ in range(r.randint(1, 3)):
        s = {"mode": "pool", "W": r.choice([1, 2, 3, 5, 8, 16]), "seed": r.randrange(10**6)}
        if r.random() < 0.08 and len(rows) > 0:
            s["die"] = [r.randrange(len(rows))]
        scheds.append(s)
    r.shuffle(scheds)
    case["schedules"] = scheds
    case["reads"] = {"order": r.choice(["vf", "fv"]), "twice": r.random() < 0.4}
    x = r.random()
    if x < 0.2:
        case["reads"]["edit_before_read"] = r.choice(["reaction", "parameter"])
    elif x < 0.5:
        case["keep_model"] = True
    if r.random() < 0.2 and len(rows) >= 2 and not poison and model != "S3":
        k = r.randint(1, len(rows) - 1)
        case["cache_prefill"] = sorted(r.sample(range(len(rows)), k))
    return case


class ScansMachine(Machine):
    name = "scans"
    properties = ("C09",)
    runs = {"quick": 4000, "thorough": 200000}
    run_timeout = 240.0
    rule = (
        "one run = one seeded scan input (scan.steady_state/time_course/protocol/protocol_time_course or their mc.* counterparts incl. "
        "mc.scan_steady_state; models with a derived variable, a readout, and a PARAMETER defined by an initial assignment over the initial "
        "values; 1-3 columns over parameters and variables; 1-8 rows; default/str/custom/non-unique labels; optional y0; grids with and "
        "without 0; content-keyed failing rows: poisoned integrator or ZeroDivisionError) executed under 2-4 schedules (sequential shared "
        "model | SimPool W in {1,2,3,5,8,16} with seeded completion order, optional worker death) and read in a seeded view order, each "
        "row compared with an independent simulation of a fresh model. distinct = distinct (kind, mode, rows-vs-workers class, read order, "
        "faults) tuples; non-trivial = >= 2 rows under >= 2 schedules, or a fired row fault"
    )
    real_components = [
        "mxlpy.scan.* and mxlpy.mc.* scan routines incl. their workers", "mxlpy.parallel.parallelise (both branches)",
        "mxlpy.Simulator / Simulation lazy views", "mxlpy.integrators.Scipy in runs with integrator=scipy", "pickle of every task payload and result",
    ]
    stub_components = ["pebble.ProcessPool -> SimPool (in-process, pickled payloads, seeded worker assignment and completion order)", "multiprocessing.cpu_count -> configured W", "tqdm -> silent", "integrator -> ExactLinear in runs that say so; Faulty wrapper for poisoned rows"]
    assumptions = [
        "the oracle is MxlPy's own Simulator on a fresh factory model that nobody else touches",
        "in-process SimPool: module-level state is shared with the parent (no worker-local state)",
        "a failing row's placeholder may or may not carry the start row when the grid omits 0",
    ]

    def run_seed(self, seed: int, tier: str, known: list[list[str]]) -> RunResult:
        rng = SimRng(seed)
        # open known findings must not blind the rest of the search: most runs avoid their trigger
        avoid = {
            "non_unique": any(k and k[0] == "rows_lost" for k in known) and rng("avoid").random() < 0.8,
            "zero_div": any(k and k[0] == "scan_raised" for k in known) and rng("avoid").random() < 0.8,
        }
        case = gen_case(rng, tier, avoid)
        case["seed"] = seed
        return self.replay(case, known)

    def replay(self, case: dict, known: list[list[str]]) -> RunResult:
        ex = Exec(self.prop, case, known)
        if case["ops"]:
            ex.run()
        fired = sum(v for k, v in ex.counters.items() if k.startswith("fault_fired"))
        nontrivial = (len(case["ops"]) >= 2 and len(case["schedules"]) >= 2) or fired > 0
        shape = digest_of(sorted(str(s) for s in ex.shape))
        ex.counters[f"kind:{case['kind']}"] += 1
        ex.counters[f"pool_seam:{'sim'}"] += 0
        return RunResult(case=case, violations=ex.violations, digest=ex.trace.digest(), counters=ex.counters, shape=shape, nontrivial=nontrivial, sim_time=0.0, steps=ex.trace.n)

    def simplifications(self, case: dict):  # noqa: ANN201
        if len(case["schedules"]) > 1:
            for i in range(len(case["schedules"])):
                new = copy.deepcopy(case)
                new["schedules"] = case["schedules"][:i] + case["schedules"][i + 1 :]
                yield new
        for i, s in enumerate(case["schedules"]):
            if s["mode"] == "pool" and s["W"] != 1:
                new = copy.deepcopy(case)
                new["schedules"][i]["W"] = 1
                yield new
        if case.get("y0"):
            new = copy.deepcopy(case)
            new["y0"] = None
            yield new
        if case["integrator"] != "exact":
            new = copy.deepcopy(case)
            new["integrator"] = "exact"
            yield new
        if len(case["columns"]) > 1:
            for c in case["columns"]:
                new = copy.deepcopy(case)
                new["columns"] = [x for x in case["columns"] if x != c]
                for r in new["ops"]:
                    r["values"].pop(c, None)
                yield new
        if case["reads"].get("twice"):
            new = copy.deepcopy(case)
            new["reads"]["twice"] = False
            yield new
        if len(case.get("time_points", [])) > 2:
            new = copy.deepcopy(case)
            new["time_points"] = case["time_points"][:2]
            yield new
        if len(case.get("protocol", [])) > 1:
            new = copy.deepcopy(case)
            new["protocol"] = case["protocol"][:1]
            yield new
