"""C04 / C14 — simulator histories in model time (DESIGN §4.2).

One Simulator over a closed-form family; the simulator is its only caller.  A reference
model (T, y, params) predicts refusal, required time points and piecewise-exact states.
"""

from __future__ import annotations

import copy
from collections import Counter

import numpy as np

from simkit import integrators, models
from simkit.core import HarnessError, Machine, RunResult, Trace, digest_of, fnum, sig_matches, violation
from simkit.rng import SimRng


POISON = 13.0


def _tol(kind: str, scale: float) -> float:
    return (2e-5 if kind.startswith("scipy") else 1e-9) * (1.0 + abs(scale))


def _steps_to_protocol(steps):  # noqa: ANN001, ANN202
    from mxlpy import make_protocol

    return make_protocol([(float(d), {k: float(v) for k, v in pv.items()}) for d, pv in steps])


class Ref:
    """Reference model of the simulator's time keeping."""

    def __init__(self, spec: dict) -> None:
        self.fam = spec["family"]
        self.names = models.FAMILIES[self.fam][0]
        self.p = {k: float(v) for k, v in spec["params"].items()}
        self.T = 0.0
        self.y = np.array([float(spec["y0"][n]) for n in self.names])
        self.dead = False
        self.empty = True

    def flow(self, intervals: list[tuple[float, float, dict]], t: float) -> tuple[np.ndarray, dict] | None:
        """State at absolute time t following the piecewise intervals from (T, y)."""
        y = self.y
        if t == self.T:
            return y, (intervals[0][2] if intervals else self.p)
        for a, b, p in intervals:
            if a < t <= b:
                return models.propagate(self.fam, p, y, a, t), p
            y = models.propagate(self.fam, p, y, a, b)
        return None


class Exec:
    def __init__(self, spec: dict, integ: str, known: list[list[str]], prop: str, fault_mode: str = "fail") -> None:
        from mxlpy import Simulator

        self.spec = spec
        self.integ = integ
        self.prop = prop
        self.known = known
        self.model = models.build_model(spec)
        # every run's integrator fails while a parameter holds the poison value (content-keyed)
        # ... either by reporting failure (mode "fail") or by the solver itself raising ("raise")
        self.sim = Simulator(self.model, integrator=integrators.FaultyFactory(integ, poison=(POISON,), mode=fault_mode), test_run=False)
        self.ref = Ref(spec)
        self.trace = Trace()
        self.violations: list[dict] = []
        self.counters: Counter = Counter()
        self.i = -1
        self.sim_time = 0.0
        self.ctx = "fresh"  # what happened last: fresh | simulate | override | steady_state | clear | param
        self.shape: set = set()
        self.had_continuation = False
        self.shifted = False  # an override happened on a non-empty simulator since the last clear
        self.arrays: dict = {}  # caller-side ndarray objects that are passed in more than once
        self.held: list = []  # result objects of protocol runs whose fluxes are read later

    # ------------------------------------------------------------------
    def _viol(self, prop: str, check: str, sig: list[str], detail: str) -> None:
        self.violations.append(violation(prop, check, sig, self.i, detail))

    def stop(self) -> bool:
        own = [v for v in self.violations if v["property"] == self.prop]
        return any(not any(sig_matches(k, v["signature"]) for k in self.known) for v in own) or len(self.violations) >= 8

    def rows(self) -> tuple[np.ndarray, np.ndarray, list[int]]:
        frames = self.sim.variables
        if not frames:
            return np.array([]), np.zeros((0, len(self.ref.names))), []
        t = np.concatenate([np.asarray(f.index, dtype=float) for f in frames])
        v = np.concatenate([f.loc[:, self.ref.names].to_numpy(dtype=float) for f in frames])
        return t, v, [len(f) for f in frames]

    def resync(self) -> None:
        """After a violation: continue from what the simulator actually holds."""
        t, v, _ = self.rows()
        if len(t):
            self.ref.T = float(t[-1])
            self.ref.y = v[-1].copy()
            self.ref.empty = False
        try:
            pv = self.model.get_parameter_values()
            self.ref.p = {k: float(pv[k]) for k in self.ref.p}
        except Exception:  # noqa: BLE001
            pass

    # ------------------------------------------------------------------
    def step(self, i: int, op: dict) -> None:  # noqa: C901, PLR0912, PLR0915
        self.i = i
        k = op["op"]
        ref, sim = self.ref, self.sim
        self.shape.add((k, self.ctx))
        if ref.dead and k not in ("clear",):
            # after an integration failure the simulator ignores further simulate calls until
            # results are cleared; nothing is demanded of it here
            self.trace.add(k, "dead")
            if k in ("update_parameter", "update_parameters", "scale_parameter", "scale_parameters"):
                self._apply_param(op)
            return
        if k in ("update_parameter", "update_parameters", "scale_parameter", "scale_parameters"):
            self._apply_param(op)
            self.ctx = "param" if self.ctx == "simulate" else self.ctx
            return
        if k in ("update_variable", "update_variables"):
            vals = {op["name"]: op["value"]} if k == "update_variable" else dict(op["items"])
            if k == "update_variable":
                sim.update_variable(op["name"], op["value"])
            else:
                sim.update_variables(vals)
            for n, v in vals.items():
                ref.y = ref.y.copy()
                ref.y[ref.names.index(n)] = float(v)
            self.trace.add(k, sorted(vals.items()))
            self.counters["override"] += 1
            if not ref.empty:
                self.counters["probe:override_on_continued_simulator"] += 1
                self.shifted = True
            self.ctx = "override"
            return
        if k == "clear":
            sim.clear_results()
            ref.T = 0.0
            ref.dead = False
            ref.empty = True
            self.shifted = False
            y0 = sim.y0
            ref.y = np.array([float(y0[n]) for n in ref.names])
            self.trace.add("clear", [fnum(v) for v in ref.y])
            self.ctx = "clear"
            self.counters["clear"] += 1
            return
        if k == "get_result":
            self._check_result()
            return
        if k == "check_held":
            self.check_held()
            self.trace.add("check_held")
            return
        if k == "read_views":
            # the user looks at the intermediate result (plots it) and carries on; looking must
            # not change what is simulated next
            res = sim.get_result()
            if not isinstance(res.value, Exception):
                from simkit import fnlib

                # ... and may interrupt the (slow) view computation half-way (Ctrl-C)
                trip = fnlib.Tripper(self.model, op["interrupt_at"] if op.get("interrupt_at") is not None else 10**9)
                try:
                    with trip:
                        _ = res.value.variables
                        _ = res.value.fluxes
                        if op.get("more"):
                            _ = res.value.get_right_hand_side()
                            _ = res.value.get_producers(ref.names[0], scaled=True)
                            _ = res.value.get_consumers(ref.names[-1], scaled=True)
                except fnlib.SimInterrupt:
                    self.counters["fault_fired:view_read_interrupted"] += 1
                    self.trace.add("read_views", "interrupted")
                except Exception as e:  # noqa: BLE001
                    self.trace.add("read_views", "exc", type(e).__name__)
                    return
            self.counters["read_views_between_segments"] += 1
            if self.ctx == "param":
                self.counters["probe:views_read_between_parameter_change_and_next_segment"] += 1
            self.trace.add("read_views")
            return
        if k == "steady_state":
            self._steady(op)
            return
        if k in ("simulate", "time_course", "protocol", "protocol_tc"):
            self._segment(op)
            return
        raise HarnessError(f"unknown op {k}")

    def _apply_param(self, op: dict) -> None:
        k = op["op"]
        sim, ref = self.sim, self.ref
        if k == "update_parameter":
            sim.update_parameter(op["name"], op["value"])
            ref.p[op["name"]] = float(op["value"])
        elif k == "update_parameters":
            sim.update_parameters(dict(op["items"]))
            for n, v in op["items"]:
                ref.p[n] = float(v)
        elif k == "scale_parameter":
            sim.scale_parameter(op["name"], op["factor"])
            ref.p[op["name"]] *= float(op["factor"])
        else:
            sim.scale_parameters(dict(op["items"]))
            for n, f in op["items"]:
                ref.p[n] *= float(f)
        self.trace.add(k, sorted(ref.p.items()))
        self.counters["param_change"] += 1

    # ------------------------------------------------------------------
    def _plan(self, op: dict) -> dict:
        """What the reference predicts for a segment-producing op."""
        ref = self.ref
        T = ref.T  # noqa: N806
        k = op["op"]
        if k == "simulate":
            end = float(op["t_end"])
            return {"refused": end <= T, "intervals": [(T, end, dict(ref.p))], "required": [end], "exact": False, "end": end}
        if k == "time_course":
            pts = [float(x) for x in op["points"]]
            end = pts[-1]
            return {"refused": end <= T, "intervals": [(T, end, dict(ref.p))], "required": [x for x in pts if x > T], "exact": False, "end": end}
        steps = op["steps"]
        intervals = []
        a = T
        p = dict(ref.p)
        bounds = []
        for d, pv in steps:
            p = dict(p)
            p.update({n: float(v) for n, v in pv.items()})
            intervals.append((a, a + float(d), p))
            a += float(d)
            bounds.append(a)
        if k == "protocol":
            return {"refused": False, "intervals": intervals, "required": bounds, "exact": False, "end": a, "bounds": bounds}
        pts = [float(x) + (T if op.get("relative") else 0.0) for x in op["points"]]
        inside = [x for x in pts if T < x <= a]
        req = sorted(set(inside) | set(bounds))
        return {"refused": pts[-1] <= T, "intervals": intervals, "required": req, "exact": True, "end": a, "bounds": bounds}

    def _points_arg(self, op: dict):  # noqa: ANN202
        """The caller-side object handed in as time points: a fresh float array by default; an
        int array / list / pandas Index on request; or ONE ndarray object the caller keeps and
        passes again in later calls (op['arr'])."""
        import pandas as pd

        pts = [float(x) for x in op["points"]]
        whole = all(float(x).is_integer() for x in pts)
        how = op.get("as", "float_array")
        if op.get("arr"):
            key = op["arr"]
            if key not in self.arrays:
                self.arrays[key] = (np.array(pts, dtype=float), list(pts))
            arr, orig = self.arrays[key]
            if orig == pts:
                self.counters["probe:caller_array_passed_again"] += 0 if arr is None else 1
                return arr
            return np.array(pts, dtype=float)
        if how == "int_array" and whole:
            return np.array([int(x) for x in pts], dtype=np.int64)
        if how == "int_list" and whole:
            return [int(x) for x in pts]
        if how == "list":
            return list(pts)
        if how == "index":
            return pd.Index(pts)
        return np.array(pts, dtype=float)

    def _call(self, op: dict) -> None:
        sim = self.sim
        k = op["op"]
        if k == "simulate":
            sim.simulate(op["t_end"], steps=op.get("steps"))
        elif k == "time_course":
            sim.simulate_time_course(self._points_arg(op))
        elif k == "protocol":
            sim.simulate_protocol(self._protocol_arg(op), time_points_per_step=op.get("tpps", 10))
        else:
            sim.simulate_protocol_time_course(self._protocol_arg(op), self._points_arg(op), time_points_as_relative=bool(op.get("relative")))

    def _protocol_arg(self, op: dict):  # noqa: ANN202
        """A fresh protocol table; or ONE table object the caller keeps and passes again -
        unchanged, edited in place (same steps, other values), or as a copy it derived from it."""
        if not op.get("proto"):
            return _steps_to_protocol(op["steps"])
        key = ("proto", op["proto"])
        new = _steps_to_protocol(op["steps"])
        kept = self.arrays.get(key)
        if kept is not None:
            same_layout = kept.shape == new.shape and list(kept.columns) == list(new.columns)
            how = op.get("proto_how", "again")
            if same_layout and how == "edit":
                kept.iloc[:, :] = new.to_numpy()
                kept.index = new.index
                self.counters["probe:caller_protocol_edited_in_place"] += 1
                return kept
            if same_layout and how == "derive":
                d = kept.copy()  # pandas carries attrs over to copies
                d.iloc[:, :] = new.to_numpy()
                d.index = new.index
                self.arrays[key] = d
                self.counters["probe:caller_protocol_derived_by_copy"] += 1
                return d
            if same_layout and kept.index.equals(new.index) and np.array_equal(kept.to_numpy(), new.to_numpy(), equal_nan=True):
                self.counters["probe:caller_protocol_passed_again"] += 1
                return kept
        self.arrays[key] = new
        return new

    def _segment(self, op: dict) -> None:  # noqa: C901, PLR0912, PLR0915
        ref = self.ref
        k = op["op"]
        is_protocol = k in ("protocol", "protocol_tc")
        prop = self.prop  # generic checks are charged to the property being checked
        ctx = self.ctx
        after = f"after:{ctx}" + ("+earlier_override" if self.shifted and ctx != "override" else "")
        if is_protocol and len({tuple(sorted(pv)) for _, pv in op["steps"]}) > 1:
            after += "+ragged"
            self.counters["probe:ragged_protocol"] += 1
        plan = self._plan(op)
        t0, v0, lens0 = self.rows()
        n0 = len(t0)
        was_empty = n0 == 0
        exc = None
        try:
            self._call(op)
        except Exception as e:  # noqa: BLE001
            exc = type(e).__name__
        except KeyboardInterrupt as e:
            if type(e).__name__ != "SimInterrupt":
                raise
            exc = "SimulatedSolverCrash"  # same demands as after a solver crash: the caller goes on
            self.counters["fault_fired:integration_interrupted_by_user"] += 1
        t1, v1, lens1 = self.rows()
        self.trace.add(k, exc, [fnum(x) for x in t1[n0:]], [[fnum(x) for x in row] for row in v1[n0:]])
        fam = f"family:{ref.fam}"
        if not was_empty:
            self.had_continuation = True
            self.counters[f"continuation:{k}:{ctx}"] += 1
        if exc == "SimulatedSolverCrash":
            # the solver blew up inside the call (injected while the poison value is in force,
            # possibly in a LATER protocol step): the caller catches it and goes on with the same
            # simulator.  Nothing is demanded of the failed call except that it leaves reported rows
            # alone; everything after it is judged from the state the simulator reports.
            self.counters["fault_fired:solver_crash_in_segment"] += 1
            if is_protocol and len(t1) > n0:
                self.counters["probe:protocol_crashed_after_completed_steps"] += 1
            if len(t1) < n0 or (n0 and not (np.array_equal(t1[:n0], t0) and np.array_equal(v1[:n0], v0))):
                self._viol(prop, "history_rewritten", ["history_rewritten", k, after, "solver_crash"], f"{k} raised {exc} and changed rows that had already been reported")
                self.resync()
            elif len(t1) > n0:
                self.resync()  # completed protocol steps stay; go on from the last reported row
            else:
                # nothing was added: time, state (incl. a pending override) stay; the parameters
                # are whatever the model now holds
                try:
                    pv = self.model.get_parameter_values()
                    ref.p = {n: float(pv[n]) for n in ref.p}
                except Exception:  # noqa: BLE001
                    pass
            self.ctx = "crash" if len(t1) > n0 or ctx != "override" else "override"
            return
        if errs := getattr(self.sim, "_errors", None):
            # integration failure inside the call: simulator is dead until cleared
            ref.dead = True
            self.counters["integration_failure"] += 1
            self.trace.add("dead", type(errs[0]).__name__)
            expected = any(POISON in iv[2].values() for iv in plan["intervals"])
            # a protocol that failed half-way has already applied some of its steps' values:
            # take the parameters in force from the model (nothing is demanded until clear)
            try:
                pv = self.model.get_parameter_values()
                ref.p = {n: float(pv[n]) for n in ref.p}
            except Exception:  # noqa: BLE001
                pass
            if expected:
                self.counters["fault_fired:poisoned_segment"] += 1
            elif not plan["refused"]:
                self._viol(prop, "segment_not_simulated", ["segment_not_simulated", k, after], f"{k} with end {plan['end']} > time reached {ref.T}: nothing was simulated and the simulator reports {type(errs[0]).__name__} although no fault is in force")
            return
        # ---- refusal -----------------------------------------------------
        if plan["refused"]:
            self.counters[f"illegal_continuation:{k}"] += 1
            if exc is None:
                self._viol(prop, "accepted_illegal_continuation", ["accepted_illegal_continuation", k, after], f"{k} with end {plan['end']} <= time reached {ref.T} was accepted")
                self.resync()
            elif len(t1) != n0 or (n0 and not np.array_equal(v1, v0)):
                self._viol(prop, "refused_op_changed_result", ["refused_op_changed_result", k, after], f"{k} raised {exc} but the accumulated result changed")
                self.resync()
            return
        if exc is not None:
            self._viol(prop, "refused_legal_continuation", ["refused_legal_continuation", k, after], f"{k} with end {plan['end']} > time reached {ref.T} raised {exc}")
            if len(t1) != n0:
                self.resync()
            return
        self.counters[f"segment:{k}"] += 1
        # ---- I1 strictly increasing absolute axis --------------------------
        if len(t1) > 1 and not np.all(np.diff(t1) > 0):
            j = int(np.argmax(np.diff(t1) <= 0))
            self._viol(prop, "time_axis_not_increasing", ["time_axis_not_increasing", k, after], f"after {k}: time axis {t1[max(0, j - 1) : j + 3].tolist()} is not strictly increasing")
            self.resync()
            self.ctx = "simulate"
            return
        if len(t1) < n0 or (n0 and not (np.array_equal(t1[:n0], t0) and np.array_equal(v1[:n0], v0))):
            self._viol(prop, "history_rewritten", ["history_rewritten", k, after], f"{k} changed rows that had already been reported")
            self.resync()
            self.ctx = "simulate"
            return
        new_t, new_v = t1[n0:], v1[n0:]
        # ---- I3 required points, each exactly once ---------------------------
        bad = False
        for r in plan["required"]:
            c = int(np.sum(t1 == r))
            if c != 1:
                what = "missing_requested_point" if c == 0 else "duplicated_time_point"
                if is_protocol and r in plan.get("bounds", []):
                    what = "protocol_boundary_missing" if c == 0 else "protocol_boundary_duplicated"
                self._viol(prop, what, [what, k, after], f"{k}: time point {r} occurs {c} times in the accumulated result (time reached before: {ref.T})")
                bad = True
                break
        if not bad and plan["exact"]:
            want = list(plan["required"])
            if was_empty:
                want = [ref.T, *want]
            got = new_t.tolist()
            if got != want:
                self._viol("C14", "protocol_points_not_exact", ["protocol_points_not_exact", k, after, "extra" if len(got) > len(want) else "other"], f"{k}: new time points {got} != start/requested-inside/boundaries {want}")
                bad = True
        # ---- I4 piecewise-exact values ----------------------------------------
        if not bad:
            for t, row in zip(new_t.tolist(), new_v, strict=True):
                if t == ref.T and not was_empty:
                    self._viol(prop, "duplicated_time_point", ["duplicated_time_point", k, after], f"{k}: the time already reached ({t}) was reported again")
                    bad = True
                    break
                f = ref.flow(plan["intervals"], t)
                if f is None:
                    self._viol(prop, "point_outside_segment", ["point_outside_segment", k, after], f"{k}: reported time {t} lies outside ({ref.T}, {plan['end']}]")
                    bad = True
                    break
                want_y = f[0]
                tol = _tol(self.integ, float(np.max(np.abs(want_y))))
                if not np.all(np.abs(row - want_y) <= tol):
                    self._viol(
                        prop, "wrong_values", ["wrong_values", k, after, fam],
                        f"{k}: state at t={t} is {row.tolist()} but the solution from the state reached at T={ref.T} ({ref.y.tolist()}) under the parameters in force is {want_y.tolist()}",
                    )
                    bad = True
                    break
        # ---- I5 recorded segment parameters -------------------------------------
        if not bad:
            pars = self.sim.simulation_parameters or []
            frames = self.sim.variables or []
            for fi in range(len(lens0), len(frames)):
                if len(frames[fi]) == 0 or fi >= len(pars):
                    continue
                t_last = float(frames[fi].index[-1])
                f = ref.flow(plan["intervals"], t_last)
                if f is None:
                    continue
                want_p = f[1]
                got_p = {n: float(pars[fi][n]) for n in want_p if n in pars[fi]}
                if got_p != want_p:
                    self._viol(prop, "segment_parameters_wrong", ["segment_parameters_wrong", k, after], f"{k}: segment ending at {t_last} recorded parameters {got_p}, in force were {want_p}")
                    bad = True
                    break
        # ---- C14: fluxes inside a step use that step's values --------------------
        if not bad and is_protocol and op.get("hold"):
            # the user keeps this result object and looks at its fluxes only LATER (after more
            # parameter changes / segments): the first lazy evaluation happens then
            res = self.sim.get_result()
            if not isinstance(res.value, Exception):
                self.held.append({"res": res.value, "plan": plan, "n0": n0, "new_t": new_t.copy(), "new_v": new_v.copy(), "k": k, "after": after, "T": ref.T, "y": ref.y.copy()})
        elif not bad and is_protocol and op.get("check_fluxes", True):
            bad = self._check_fluxes(plan, n0, new_t, new_v, k, after)
        if bad:
            self.resync()
        else:
            end_state = ref.flow(plan["intervals"], plan["end"])
            self.sim_time += plan["end"] - ref.T
            # the next segment starts from the previous segment's REPORTED final state (already
            # judged above): re-basing keeps integrator error from accumulating over a history,
            # which matters for growing solutions (dx/dt = kx, k > 0)
            ref.y = new_v[-1].copy() if len(new_v) and float(new_t[-1]) == plan["end"] else end_state[0]
            ref.T = plan["end"]
            ref.p = dict(plan["intervals"][-1][2])
            ref.empty = False
        self.ctx = "simulate"

    def check_held(self) -> None:
        """Late first read of the fluxes of result objects taken earlier."""
        saved_T, saved_y = self.ref.T, self.ref.y  # noqa: N806
        for h in self.held:
            self.ref.T, self.ref.y = h["T"], h["y"]
            try:
                self.counters["held_results_read_late"] += 1
                if self._check_fluxes(h["plan"], h["n0"], h["new_t"], h["new_v"], h["k"], h["after"] + "+read_late", simres=h["res"]):
                    break
            finally:
                self.ref.T, self.ref.y = saved_T, saved_y
        self.held = []

    def _check_fluxes(self, plan: dict, n0: int, new_t, new_v, k: str, after: str, simres=None) -> bool:  # noqa: ANN001
        ref = self.ref
        if simres is None:
            res = self.sim.get_result()
            if isinstance(res.value, Exception):
                return False
            simres = copy.deepcopy(res.value)  # its own model: reading views must not disturb the run
        try:
            fl = simres.fluxes
        except Exception as e:  # noqa: BLE001
            self._viol("C14", "fluxes_unreadable", ["fluxes_unreadable", k, after, type(e).__name__], f"reading fluxes after {k} raised {type(e).__name__}")
            return True
        fl_new = fl.iloc[n0 : n0 + len(new_t)]
        for (t, row), (_, frow) in zip(zip(new_t.tolist(), new_v, strict=True), fl_new.iterrows(), strict=True):
            f = ref.flow(plan["intervals"], t)
            if f is None:
                continue
            want = models.rates(ref.fam, f[1], row, t)
            for name, w in want.items():
                g = float(frow[name])
                if abs(g - w) > 1e-9 * (1 + abs(w)):
                    self._viol("C14", "protocol_flux_wrong_step", ["protocol_flux_wrong_step", k, after], f"{k}: flux {name} at t={t} is {g}, the rate law at that row's state under its step's values gives {w}")
                    return True
        self.counters["flux_rows_checked"] += len(fl_new)
        return False

    # ------------------------------------------------------------------
    def _steady(self, op: dict) -> None:
        """Inside C04 only the time axis and 'the next segment starts from the reported
        final state' are judged (whether the state IS steady is C15's question)."""
        ref = self.ref
        ctx = self.ctx
        t0, v0, _ = self.rows()
        n0 = len(t0)
        exc = None
        armed = False
        if op.get("interrupt_at_poll") is not None and self.integ == "scipy":
            # Ctrl-C in the middle of the search, after some of its polling steps were completed
            armed = integrators.install_faulty_ode(integrators.OdeFaultPlan(kind="interrupt", at_step=int(op["interrupt_at_poll"]))) == "sim"
        try:
            self.sim.simulate_to_steady_state(tolerance=op.get("tolerance", 1e-6), rel_norm=bool(op.get("rel_norm")))
        except Exception as e:  # noqa: BLE001
            exc = type(e).__name__
        except KeyboardInterrupt as e:
            if type(e).__name__ != "SimInterrupt":
                raise
            exc = "SimInterrupt"
        finally:
            if armed:
                integrators.uninstall_faulty_ode()
        if exc == "SimInterrupt" and armed:
            # the interrupted search reported nothing; the user goes on with the same simulator,
            # which must continue from the state it last reported
            t1, v1, _ = self.rows()
            self.trace.add("steady_state", "interrupted", len(t1) - n0)
            self.counters["fault_fired:steady_state_search_interrupted"] += 1
            if len(t1) != n0:
                self.resync()
            return
        t1, v1, _ = self.rows()
        self.trace.add("steady_state", exc, [fnum(x) for x in t1[n0:]], [[fnum(x) for x in r] for r in v1[n0:]])
        self.counters["steady_state_op"] += 1
        if exc is not None or getattr(self.sim, "_errors", None):
            ref.dead = True
            self.counters["steady_state_failed"] += 1
            return
        if n0:
            self.counters["probe:steady_state_on_continued_simulator"] += 1
        if len(t1) > 1 and not np.all(np.diff(t1) > 0):
            self._viol("C04", "time_axis_not_increasing", ["time_axis_not_increasing", "steady_state", f"after:{ctx}"], f"steady-state run appended time(s) {t1[n0:].tolist()} after time {ref.T} had been reached")
        elif n0 and not (np.array_equal(t1[:n0], t0) and np.array_equal(v1[:n0], v0)):
            self._viol("C04", "history_rewritten", ["history_rewritten", "steady_state", f"after:{ctx}"], "steady-state run changed rows already reported")
        if len(t1) > n0:
            # the next segment must start from the reported final state
            ref.T = float(t1[-1])
            ref.y = v1[-1].copy()
            ref.empty = False
            self.sim_time += max(0.0, ref.T - (t0[-1] if n0 else 0.0))
        self.ctx = "steady_state"

    def _check_result(self) -> None:
        t, v, _ = self.rows()
        res = self.sim.get_result()
        self.counters["get_result"] += 1
        if isinstance(res.value, Exception):
            self.trace.add("get_result", "failure")
            if len(t) and not self.ref.dead:
                self._viol("C04", "result_lost", ["result_lost", "get_result"], "get_result reports failure although segments were simulated")
            return
        df = res.value.get_variables(include_derived_variables=False, include_readouts=False, include_surrogate_variables=False)
        tt = np.asarray(df.index, dtype=float)
        vv = df.loc[:, self.ref.names].to_numpy(dtype=float)
        self.trace.add("get_result", len(tt))
        if not (np.array_equal(tt, t) and np.array_equal(vv, v)):
            self._viol("C04", "result_differs_from_segments", ["result_differs_from_segments", "get_result"], "get_result().variables is not the accumulated segments stacked in order")


# --------------------------------------------------------------------------
# generation (online against the reference model's T)
# --------------------------------------------------------------------------
def gen_spec(rng: SimRng, prop: str, integ: str) -> dict:
    r = rng("spec")
    fams = ["F1", "F2", "F2r", "F4", "F6", "F1", "F2", "F1n"] + (["F3", "F3", "F5"] if integ.startswith("scipy") else ["F5"])
    fam = r.choice(fams)
    variables, params = models.FAMILIES[fam]
    p = {}
    for n in params:
        if fam == "F4":
            p[n] = r.choice([-1.0, -0.5, -0.25, 0.25, 0.5])
        elif n in ("c", "a"):
            p[n] = r.choice([0.5, 1.0, 2.0, 3.0])
        else:
            p[n] = r.choice([0.25, 0.5, 1.0, 2.0])
    y0 = {n: r.choice([0.0, 0.5, 1.0, 2.0, 4.0]) for n in variables}
    if fam == "F4" and y0["x"] == 0.0:
        y0["x"] = 1.0
    return {"family": fam, "params": p, "y0": y0}


def _grid(r, lo: float, hi: float, n: int) -> list[float]:  # noqa: ANN001
    """n sorted distinct dyadic points in [lo, hi] (quarters)."""
    a, b = int(round(lo * 4)), int(round(hi * 4))
    if b <= a:
        return [lo]
    ks = sorted(r.sample(range(a, b + 1), min(n, b - a + 1)))
    return [k / 4 for k in ks]


class Gen:
    def __init__(self, rng: SimRng, cfg: dict, spec: dict) -> None:
        self.rng = rng
        self.cfg = cfg
        self.spec = spec
        self.kept: dict = {}  # array id -> (points, relative) the simulated caller keeps around
        self.pending: list[dict] = []  # follow-up ops of a burst
        self.pnames = models.FAMILIES[spec["family"]][1]
        self.vnames = models.FAMILIES[spec["family"]][0]

    def pval(self, name: str) -> float:
        r = self.rng("pvals")
        if self.spec["family"] == "F4":
            return r.choice([-1.0, -0.5, -0.25, 0.25, 0.5])
        return r.choice([0.25, 0.5, 1.0, 1.5, 2.0, 3.0])

    def protocol_steps(self, T: float = 0.0) -> list:  # noqa: N803
        r = self.rng("protocol")
        steps = self._protocol_steps(r)
        if T >= 100 and r.random() < 0.5:
            # flashes: steps that are tiny relative to the clock (1/128, 1/1024 are exact in binary)
            for st in steps:
                if r.random() < 0.6:
                    st[0] = r.choice([1 / 128, 1 / 512, 2 / 128, 1 / 256])  # whole nanoseconds: the protocol index is a Timedelta
        if self.cfg.get("faults") and len(steps) >= 2 and r.random() < 0.2:
            # the fault comes into force in a LATER step of the protocol
            j = r.randrange(1, len(steps))
            nm = sorted(steps[j][1])[0]
            steps[j][1][nm] = POISON
        return steps

    def _protocol_steps(self, r) -> list:  # noqa: ANN001
        if self.kept.get("__proto__") and r.random() < 0.45:
            steps = copy.deepcopy(self.kept["__proto__"])
            if r.random() < 0.6:
                # same layout, other values / durations: the caller edits or derives its table
                for st in steps:
                    st[0] = r.choice([0.25, 0.5, 1.0, 1.5, 2.0, 3.0])
                    st[1] = {nm: self.pval(nm) for nm in st[1]}
            return steps  # (else: the caller runs the same protocol again)
        n = r.randint(1, 4)
        names = r.sample(self.pnames, min(len(self.pnames), r.randint(1, 2)))
        steps = []
        for _ in range(n):
            if self.cfg.get("ragged") and len(self.pnames) > 1:
                # a step names only the parameters it changes (its own sub-check)
                names = r.sample(self.pnames, r.randint(1, len(self.pnames)))
            steps.append([r.choice([0.25, 0.5, 1.0, 1.5, 2.0, 3.0]), {nm: self.pval(nm) for nm in names}])
        self.kept["__proto__"] = copy.deepcopy(steps)
        return steps

    def op(self, kind: str, T: float) -> dict:  # noqa: C901, N803, PLR0911, PLR0912
        r = self.rng("ops")
        illegal = r.random() < self.cfg["illegal_rate"]
        long_ok = self.cfg.get("long_jumps") and not (self.spec["family"] == "F4")
        if kind == "simulate":
            if illegal and T > 0:
                t_end = r.choice([T, T - 0.25, T / 2, 0.0, T])
            elif T >= 100 and r.random() < 0.35:
                # a very short stretch at a large clock; often framed by two overrides of different variables
                t_end = T + r.choice([1 / 128, 1 / 512, 1 / 256])  # whole nanoseconds (protocol indices are Timedeltas)
                if len(self.vnames) > 1 and r.random() < 0.6:
                    a, b = r.sample(self.vnames, 2)
                    self.pending = [
                        {"op": "simulate", "t_end": t_end, "steps": r.choice([None, 1, 2])},
                        {"op": "update_variable", "name": b, "value": r.choice([0.5, 2.0, 3.0, 5.0])},
                        {"op": "simulate", "t_end": t_end + r.choice([0.5, 1.0, 2.0]), "steps": r.choice([None, 2, 5])},
                    ]
                    return {"op": "update_variable", "name": a, "value": r.choice([0.5, 2.0, 3.0, 5.0])}
            elif long_ok and r.random() < 0.2:
                t_end = T + r.choice([100.0, 1000.0, 1024.0])  # a long stretch: large clock afterwards
            else:
                t_end = T + r.choice([0.25, 0.5, 1.0, 2.0, 3.0, 0.25])
            return {"op": "simulate", "t_end": t_end, "steps": r.choice([None, 1, 2, 5, 10])}
        if kind == "time_course":
            op: dict = {"op": "time_course"}
            if illegal and T > 0:
                pts = _grid(r, max(0.0, T - 2.0), T, r.randint(1, 4))
            elif T >= 100 and r.random() < 0.6:
                # fine grid just after the time reached (1/128 is exact in binary)
                pts = sorted({T + j / 128 for j in r.sample(range(1, 400), r.randint(1, 4))})
            elif r.random() < 0.25:
                # whole-number time points (handed over as ints below)
                base = int(np.floor(T)) + 1
                pts = [float(x) for x in sorted(r.sample(range(base, base + 6), r.randint(1, 4)))]
            else:
                lo = r.choice([T - 1.0, T, T + 0.25, 0.0]) if T > 0 else r.choice([0.0, 0.25])
                lo = max(0.0, lo)
                pts = _grid(r, lo, T + r.choice([1.0, 2.0, 3.0]), r.randint(1, 6))
                if pts[-1] <= T:
                    pts.append(T + 0.5)
            op["points"] = pts
            x = r.random()
            if all(float(v).is_integer() for v in pts) and x < 0.6:
                op["as"] = r.choice(["int_array", "int_list"])
            elif x < 0.75:
                op["as"] = r.choice(["list", "index"])
            return op
        if kind == "protocol":
            op = {"op": "protocol", "steps": self.protocol_steps(T), "tpps": r.choice([1, 2, 3, 10])}
            if r.random() < 0.5:
                op["proto"] = "P"
                op["proto_how"] = r.choice(["edit", "derive", "again"])
            if r.random() < 0.3:
                op["hold"] = True
            return op
        if kind == "protocol_tc":
            steps = self.protocol_steps(T)
            total = sum(s[0] for s in steps)
            rel = r.random() < 0.5
            base = 0.0 if rel else T
            if illegal and T > 0 and not rel:
                pts = _grid(r, max(0.0, T - 2.0), T, r.randint(1, 3))
            else:
                lo = base + r.choice([0.0, 0.25, -0.5 if base >= 0.5 else 0.0])
                pts = _grid(r, lo, base + total + r.choice([0.0, 0.0, 1.0]), r.randint(1, 6))
                if pts[-1] + (T if rel else 0.0) <= T:
                    pts.append(pts[-1] + 0.5 + (0.0 if rel else 0.0) + (T - pts[-1] if not rel and pts[-1] < T else 0.0))
            op = {"op": "protocol_tc", "steps": steps, "points": pts, "relative": rel}
            if r.random() < 0.5:
                op["proto"] = "P"
                op["proto_how"] = r.choice(["edit", "derive", "again"])
            if r.random() < 0.3:
                op["hold"] = True
            if T >= 100 and r.random() < 0.7:
                # requested points hugging a step boundary (1/128 away), at a large clock
                acc, extra = (0.0 if rel else T), []
                for d, _ in steps:
                    acc += d
                    extra += [acc - 1 / 128, acc + 1 / 128, acc - 2 / 128]
                op["points"] = sorted(set(pts) | {e for e in extra if e > (0.0 if rel else T)})
            if rel and r.random() < 0.35:
                # the caller keeps ONE relative grid array and passes it to several calls
                key = r.choice(["A", "B"])
                if key in self.kept:
                    op["points"] = list(self.kept[key])
                else:
                    self.kept[key] = list(op["points"])
                op["arr"] = key
            elif r.random() < 0.2:
                op["as"] = r.choice(["list", "index"])
            return op
        if kind == "update_parameter":
            n = r.choice(self.pnames)
            if self.cfg.get("faults") and r.random() < 0.15:
                return {"op": kind, "name": n, "value": POISON}  # the next segment fails
            return {"op": kind, "name": n, "value": self.pval(n)}
        if kind == "update_parameters":
            ns = r.sample(self.pnames, r.randint(1, len(self.pnames)))
            return {"op": kind, "items": [[n, self.pval(n)] for n in ns]}
        if kind == "scale_parameter":
            return {"op": kind, "name": r.choice(self.pnames), "factor": r.choice([0.5, 2.0])}
        if kind == "scale_parameters":
            ns = r.sample(self.pnames, r.randint(1, len(self.pnames)))
            return {"op": kind, "items": [[n, r.choice([0.5, 2.0])] for n in ns]}
        if kind == "update_variable":
            return {"op": kind, "name": r.choice(self.vnames), "value": r.choice([0.5, 1.0, 2.0, 3.0, 5.0])}
        if kind == "update_variables":
            ns = r.sample(self.vnames, r.randint(1, len(self.vnames)))
            return {"op": kind, "items": [[n, r.choice([0.5, 1.0, 2.0, 3.0, 5.0])] for n in ns]}
        if kind == "steady_state":
            op = {"op": kind, "tolerance": r.choice([1e-6, 1e-8]), "rel_norm": r.random() < 0.3}
            if r.random() < 0.3:
                op["interrupt_at_poll"] = r.choice([0, 1, 1, 2, 3, 5])
            return op
        if kind in ("clear", "get_result"):
            return {"op": kind}
        if kind == "read_views":
            op = {"op": kind, "more": r.random() < 0.4}
            if r.random() < 0.3:
                op["more"] = True
                op["interrupt_at"] = r.choice([0, 1, 2, 3, 4, 5, 6, 8, 10, 12, 15, 20])
            return op
        raise HarnessError(kind)


OPS_C04 = {
    "simulate": 5, "time_course": 4, "protocol": 1.5, "protocol_tc": 1.5, "update_parameter": 2, "update_parameters": 1,
    "scale_parameter": 1, "scale_parameters": 0.5, "update_variable": 2.5, "update_variables": 1, "steady_state": 1.2,
    "clear": 0.7, "get_result": 1, "read_views": 1.2,
}
OPS_C14 = {
    "simulate": 1.5, "time_course": 1, "protocol": 5, "protocol_tc": 5, "update_parameter": 1, "update_parameters": 0.5,
    "scale_parameter": 0.3, "scale_parameters": 0.2, "update_variable": 1.2, "update_variables": 0.5, "steady_state": 0.3,
    "clear": 0.5, "get_result": 0.5, "read_views": 1.0,
}


def make_config(rng: SimRng, prop: str, tier: str, avoid: set[str]) -> dict:
    r = rng("config")
    base = OPS_C04 if prop == "C04" else OPS_C14
    ops = {k: w for k, w in base.items() if r.random() < 0.8 or k in ("simulate", "protocol", "protocol_tc")}
    for a in avoid:
        ops.pop(a, None)
    return {
        "n_ops": r.randint(4, 12 if tier == "quick" else 18),
        "ops": ops,
        "illegal_rate": r.choice([0.1, 0.2, 0.3]),
        "integrator": r.choice(["scipy", "exact", "exact", "scipy", "exact", "exact", "scipy:RK45", "scipy:BDF"]),
        "ragged": r.random() < 0.2,
        "long_jumps": r.random() < 0.2,
        "faults": r.random() < 0.25,
        "start_poisoned": r.random() < 0.06,
        "fault_mode": r.choice(["raise", "interrupt", "fail", "fail", "fail"]),
    }


class SimTimeMachine(Machine):
    name = "simtime"
    properties = ("C04", "C14")
    runs = {"quick": 4000, "thorough": 300000}
    run_timeout = 40.0
    real_components = [
        "mxlpy.Simulator (simulate, simulate_time_course, simulate_protocol, simulate_protocol_time_course, overrides, clear_results, get_result)",
        "mxlpy.integrators.Scipy (continuation state t0/y0, solve_ivp) in the runs that say integrator=scipy",
        "mxlpy.make_protocol", "mxlpy.Model right-hand side (also under the ExactLinear stub)", "mxlpy.Simulation.fluxes for the protocol flux check",
    ]
    stub_components = [
        "integrator -> ExactLinear (exact matrix-exponential stepping over the real rhs) in the runs that say integrator=exact",
        "every integrator sits behind a content-keyed fault wrapper (FaultyFactory): while the poison value is in force it reports failure, raises, or is interrupted (KeyboardInterrupt), per run",
        "Model evaluation methods -> interrupt seam (fnlib.Tripper) during the view reads that say so",
    ]
    assumptions = [
        "closed-form solutions written down from the family spec (matrix exponential) are the oracle",
        "scipy runs are judged at 2e-5*(1+|x|), exact runs at 1e-9*(1+|x|)",
        "after an integration failure nothing is demanded until clear_results",
    ]

    @property
    def rule(self) -> str:  # type: ignore[override]
        return (
            "one run = one seeded history on ONE Simulator over a closed-form family (F1 c-kx, F2/F6 chains, F2r reversible, F3 "
            "non-autonomous a*t, F4 kx, F5 accumulation): simulate / time-course / protocol / protocol-time-course calls with dyadic "
            "times, ~20% deliberately illegal continuations (end <= time reached), parameter updates, variable overrides, steady-state "
            "runs, clear_results, get_result; reference model (T, y, params) predicts refusal, required points and piecewise-exact states "
            "after every op. distinct = distinct set of (op kind, preceding context) pairs + family + integrator; non-trivial = at least "
            "one segment-producing op executed on an already continued simulator"
        )

    def _avoid(self, known: list[list[str]]) -> set[str]:
        return set()

    def run_seed(self, seed: int, tier: str, known: list[list[str]]) -> RunResult:
        rng = SimRng(seed)
        cfg = make_config(rng, self.prop, tier, self._avoid(known))
        spec = gen_spec(rng, self.prop, cfg["integrator"])
        if cfg.get("start_poisoned"):
            spec["params"][sorted(spec["params"])[0]] = POISON  # the very first run fails
        ex = Exec(spec, cfg["integrator"], known, self.prop, cfg.get("fault_mode", "fail"))
        gen = Gen(rng, cfg, spec)
        ops: list[dict] = []
        for i in range(cfg["n_ops"]):
            if gen.pending and not ex.ref.dead:
                op = gen.pending.pop(0)
                ops.append(op)
                ex.step(i, op)
                if ex.stop():
                    break
                continue
            gen.pending = []
            kind = rng.weighted("plan", list(cfg["ops"].items()))
            if (ex.ref.dead or POISON in ex.ref.p.values()) and rng("plan").random() < 0.7:
                # recover: put a healthy value back where the poison is, then clear
                bad = [n for n, v in ex.ref.p.items() if v == POISON]
                kind = "__heal__" if bad else "clear"
            if kind == "__heal__":
                op = {"op": "update_parameter", "name": bad[0], "value": gen.pval(bad[0])}
                ops.append(op)
                ex.step(i, op)
                continue
            if kind == "steady_state" and (models.steady_state(spec["family"], ex.ref.p) is None or ":" in cfg["integrator"]):
                kind = "simulate"  # (the steady-state loop only knows scipy.integrate.ode's own solvers)
            op = gen.op(kind, ex.ref.T)
            ops.append(op)
            ex.step(i, op)
            if ex.stop():
                break
        else:
            for op in ({"op": "check_held"}, {"op": "get_result"}):
                ops.append(op)
                ex.step(len(ops) - 1, op)
        case = {"seed": seed, "spec": spec, "integrator": cfg["integrator"], "config": cfg, "ops": ops}
        return self._result(case, ex)

    def replay(self, case: dict, known: list[list[str]]) -> RunResult:
        ex = Exec(case["spec"], case["integrator"], known, self.prop, (case.get("config") or {}).get("fault_mode", "fail"))
        for i, op in enumerate(case["ops"]):
            ex.step(i, op)
            if ex.stop():
                break
        return self._result(case, ex)

    def _result(self, case: dict, ex: Exec) -> RunResult:
        shape = digest_of([sorted(f"{a}|{b}" for a, b in ex.shape), case["spec"]["family"], case["integrator"]])
        ex.counters[f"integrator:{case['integrator']}"] += 1
        ex.counters[f"family:{case['spec']['family']}"] += 1
        return RunResult(
            case=case, violations=[v for v in ex.violations if v["property"] == self.prop], digest=ex.trace.digest(),
            counters=ex.counters, shape=shape, nontrivial=ex.had_continuation, sim_time=ex.sim_time, steps=ex.trace.n,
        )

    def simplifications(self, case: dict):  # noqa: ANN201
        if case["integrator"] != "exact" and case["spec"]["family"] in models.AUTONOMOUS:
            new = copy.deepcopy(case)
            new["integrator"] = "exact"
            yield new
        for i, op in enumerate(case["ops"]):
            if op["op"] in ("protocol", "protocol_tc") and len(op["steps"]) > 1:
                for j in range(len(op["steps"])):
                    new = copy.deepcopy(case)
                    new["ops"][i]["steps"] = op["steps"][:j] + op["steps"][j + 1 :]
                    yield new
            if op["op"] in ("time_course", "protocol_tc") and len(op["points"]) > 1:
                for j in range(len(op["points"])):
                    new = copy.deepcopy(case)
                    new["ops"][i]["points"] = op["points"][:j] + op["points"][j + 1 :]
                    yield new
            if op["op"] == "simulate" and op.get("steps") not in (None, 1):
                new = copy.deepcopy(case)
                new["ops"][i]["steps"] = 1
                yield new
            if op["op"] == "protocol" and op.get("tpps", 10) != 1:
                new = copy.deepcopy(case)
                new["ops"][i]["tpps"] = 1
                yield new
