"""C17 — only the clause "two documents read in one session do not interfere" (DESIGN §4.7).

Shared state between reads: the generated source ~/.cache/mxlpy/mb_<stem>.py,
sys.modules['mb_<stem>'], and CPython's __pycache__ entry validated by whole-second mtime
and size.  The simulator owns the order of writes/reads/queries, the file clock and the
bytecode-cache bit; the oracle is the same document read in isolation.
"""

from __future__ import annotations

import copy
import os
import pathlib
import shutil
import subprocess
import sys
from collections import Counter
from pathlib import Path

from simkit import models
from simkit.core import HarnessError, Machine, RunResult, Trace, canon, diff_values, digest_of, fnum, sig_matches, violation
from simkit.rng import SimRng, derive

_COUNTER = [0]
STEMS = [
    "model", "Model", "my model", "my-model", "m1", "m_1",
    # boundary lengths: long file names (same long name in two directories is ordinary)
    "glycolysis_and_pentose_phosphate_pathway_model_of_saccharomyces_cerevisiae_v2_final",
    "x" * 120,
]
DIRS = ["A", "B"]


def _scratch() -> Path:
    base = Path(os.environ.get("SIMKIT_SCRATCH") or "/tmp") / "session"  # noqa: S108
    _COUNTER[0] += 1
    d = base / f"{os.getpid()}-{_COUNTER[0]}"
    d.mkdir(parents=True, exist_ok=True)
    return d


# --------------------------------------------------------------------------
# simulated file clock (writer side: files written below the cache dir get their mtime
# from the simulated clock when they are closed)
# --------------------------------------------------------------------------
class FileClock:
    def __init__(self) -> None:
        self.now_ns = 1_700_000_000 * 10**9
        self.root = ""
        self.stamped = 0
        self.tear_at: int | None = None  # cut the next generated-module write after this many characters
        self.torn = 0


CLOCK = FileClock()
_ORIG_OPEN = pathlib.Path.open


class _ClockedFile:
    def __init__(self, f, path: str) -> None:  # noqa: ANN001
        self._f = f
        self._path = path

    def __enter__(self):  # noqa: ANN204
        return self

    def __exit__(self, *a):  # noqa: ANN002
        self.close()
        return False

    def close(self) -> None:
        self._f.close()
        os.utime(self._path, ns=(CLOCK.now_ns, CLOCK.now_ns))
        CLOCK.stamped += 1

    def write(self, data):  # noqa: ANN001, ANN201
        if CLOCK.tear_at is not None and self._path.endswith(".py"):
            cut = CLOCK.tear_at
            CLOCK.tear_at = None
            CLOCK.torn += 1
            self._f.write(data[:cut])
            self._f.flush()
            import errno

            raise OSError(errno.ENOSPC, "No space left on device (injected)")
        return self._f.write(data)

    def __getattr__(self, name):  # noqa: ANN001, ANN204
        return getattr(self._f, name)

    def __iter__(self):  # noqa: ANN204
        return iter(self._f)


def _sim_open(self, mode="r", *a, **k):  # noqa: ANN001, ANN002, ANN003, ANN202
    f = _ORIG_OPEN(self, mode, *a, **k)
    if CLOCK.root and any(c in mode for c in "wa+x") and os.fspath(self).startswith(CLOCK.root):
        return _ClockedFile(f, os.fspath(self))
    return f


def install_clock(root: str) -> None:
    CLOCK.root = root
    CLOCK.now_ns = 1_700_000_000 * 10**9
    CLOCK.stamped = 0
    CLOCK.tear_at = None
    CLOCK.torn = 0
    pathlib.Path.open = _sim_open


def uninstall_clock() -> None:
    CLOCK.root = ""
    pathlib.Path.open = _ORIG_OPEN


# --------------------------------------------------------------------------
def doc_spec(i: int) -> dict:
    """Small documents that differ in a constant only (same generated size), in a rate law,
    or in the number of components."""
    table = [
        {"family": "F1", "params": {"c": 1.0, "k": 0.5}, "y0": {"x": 1.0}},
        {"family": "F1", "params": {"c": 2.0, "k": 0.5}, "y0": {"x": 1.0}},  # constant differs, same size
        {"family": "F1", "params": {"c": 1.0, "k": 0.5}, "y0": {"x": 3.0}},  # initial value differs, same size
        {"family": "F1", "params": {"c": 1.25, "k": 0.5}, "y0": {"x": 1.0}},  # different size
        {"family": "F4", "params": {"k": 0.5}, "y0": {"x": 1.0}},  # other rate law, same variable
        {"family": "F2", "params": {"c": 1.0, "k1": 0.5, "k2": 0.25}, "y0": {"x": 1.0, "y": 0.5}},  # more components
        {"family": "F2", "params": {"c": 1.0, "k1": 0.5, "k2": 0.75}, "y0": {"x": 1.0, "y": 0.5}},
        # a rate law that is NOT symmetric in its arguments (a permuted signature changes the value)
        {"family": "F2r", "params": {"kf": 2.0, "kr": 0.5}, "y0": {"x": 1.0, "y": 3.0}},
        {"family": "F2r", "params": {"kf": 2.0, "kr": 0.25}, "y0": {"x": 1.0, "y": 3.0}},
        # two documents that differ ONLY in the math of an initial assignment
        {"family": "F1", "params": {"c": 1.0, "k": 0.5}, "y0": {"x": 1.0}, "ia": "mul2"},
        {"family": "F1", "params": {"c": 1.0, "k": 0.5}, "y0": {"x": 1.0}, "ia": "add2"},
        # documents that differ ONLY in a -1 vs a -2 (an exponent; a consumed amount): in CPython
        # hash(-1) == hash(-2), so anything keyed by the hash of an expression confuses them
        {"family": "F1", "params": {"c": 1.0, "k": 0.5}, "y0": {"x": 1.0}, "custom": "pow1"},
        {"family": "F1", "params": {"c": 1.0, "k": 0.5}, "y0": {"x": 1.0}, "custom": "pow2"},
        {"family": "F1", "params": {"c": 1.0, "k": 0.5}, "y0": {"x": 1.0}, "custom": "stoich2"},
    ]
    return table[i % len(table)]


N_DOCS = 14


def _pw1(k, x):  # noqa: ANN001, ANN202
    return k * x**-1


def _pw2(k, x):  # noqa: ANN001, ANN202
    return k * x**-2


def _custom_model(spec: dict):  # noqa: ANN202
    from mxlpy import Model

    from simkit import fnlib

    m = Model().add_parameters(dict(spec["params"])).add_variables(dict(spec["y0"]))
    m.add_reaction("vin", fnlib.const, args=["c"], stoichiometry={"x": 1})
    how = spec["custom"]
    if how == "stoich2":
        m.add_reaction("vout", fnlib.ma1, args=["x", "k"], stoichiometry={"x": -2})
    else:
        fn = _pw1 if how == "pow1" else _pw2
        fn.__name__ = "vout"
        m.add_reaction("vout", fn, args=["k", "x"], stoichiometry={"x": -1})
    return m


def _ia_mul2(c):  # noqa: ANN001, ANN202
    return 2 * c


def _ia_add2(c):  # noqa: ANN001, ANN202
    return c + 2


_IA_XML = {
    "mul2": "<apply><times/><cn>2</cn><ci>c</ci></apply>",
    "add2": "<apply><plus/><ci>c</ci><cn>2</cn></apply>",
}


def write_doc(i: int, path) -> None:  # noqa: ANN001
    """Write document i.  (mxlpy's exporter cannot write initial assignments of variables at
    the pinned commit - it raises AttributeError - so those documents get theirs spliced in.)"""
    from mxlpy import sbml

    spec = doc_spec(i)
    sbml.write(_custom_model(spec) if spec.get("custom") else models.build_model(spec), path)
    if spec.get("ia"):
        text = Path(path).read_text()
        block = (
            "<listOfInitialAssignments><initialAssignment symbol=\"x\">"
            f"<math xmlns=\"http://www.w3.org/1998/Math/MathML\">{_IA_XML[spec['ia']]}</math>"
            "</initialAssignment></listOfInitialAssignments>"
        )
        if "</listOfParameters>" not in text:
            raise HarnessError("cannot splice initial assignment into the document")
        Path(path).write_text(text.replace("</listOfParameters>", "</listOfParameters>" + block, 1))


def _t_vin(c):  # noqa: ANN001, ANN202
    return c


def _t_vout(k, x):  # noqa: ANN001, ANN202
    return k * x


def _t_v(k, x):  # noqa: ANN001, ANN202
    return k * x


def _t_v1(k1, x):  # noqa: ANN001, ANN202
    return k1 * x


def _t_v2(y, k2):  # noqa: ANN001, ANN202
    return k2 * y


def _t_v1rev(kr, y, kf, x):  # noqa: ANN001, ANN202
    return kf * x - kr * y


def twin_model(i: int):  # noqa: ANN201
    """A HAND-WRITTEN model of document i whose Python functions carry the names of the
    document's reactions (a user who wrote the model by hand and exported it), with their
    own argument orders."""
    from mxlpy import Model

    spec = doc_spec(i)
    fam, p, y0 = spec["family"], spec["params"], spec["y0"]
    m = Model().add_parameters(dict(p)).add_variables(dict(y0))
    fns = {"vin": _t_vin, "vout": _t_vout, "v": _t_v, "v1": _t_v1, "v2": _t_v2}
    for n, f in fns.items():
        f.__name__ = n
    if fam == "F2r":
        _t_v1rev.__name__ = "v1"
        m.add_reaction("v1", _t_v1rev, args=["kr", "y", "kf", "x"], stoichiometry={"x": -1, "y": 1})
        return m
    if fam == "F1":
        m.add_reaction("vin", fns["vin"], args=["c"], stoichiometry={"x": 1})
        m.add_reaction("vout", fns["vout"], args=["k", "x"], stoichiometry={"x": -1})
    elif fam == "F4":
        m.add_reaction("v", fns["v"], args=["k", "x"], stoichiometry={"x": 1})
    else:
        m.add_reaction("vin", fns["vin"], args=["c"], stoichiometry={"x": 1})
        m.add_reaction("v1", fns["v1"], args=["k1", "x"], stoichiometry={"x": -1, "y": 1})
        m.add_reaction("v2", fns["v2"], args=["y", "k2"], stoichiometry={"y": -1})
    return m


def queries(model, state_id: int) -> dict:  # noqa: ANN001
    names = model.get_variable_names()
    st = {n: 0.5 + (derive(state_id, n) % 8) / 4 for n in names}
    return {
        "rhs": model.get_right_hand_side(st, 0.5),
        "args": model.get_args(st, 0.5),
        "ic": dict(model.get_initial_conditions()),
        "pv": dict(model.get_parameter_values()),
    }


#: (document, state id) -> answers of that document read in a PRISTINE process (filled once
#: per check start in a forked child, so that the checking process itself stays pristine)
ISO_TABLE: dict = {}
STATES = (1, 2, 3, 4)


def compute_iso_table() -> dict:
    """Fork a child that reads every document in isolation (own HOME, unique stem, bytecode
    off) and sends back the answers; nothing of it stays in this process."""
    import pickle

    from mxlpy import sbml

    base = _scratch()
    r, w = os.pipe()
    pid = os.fork()
    if pid == 0:
        code = 0
        try:
            os.close(r)
            sys.dont_write_bytecode = True
            table = {}
            for i in range(N_DOCS):
                home = base / f"iso-home-{i}"
                home.mkdir(exist_ok=True)
                os.environ["HOME"] = str(home)
                p = base / f"iso_doc_{i}.xml"
                write_doc(i, p)
                for st in STATES:
                    m = sbml.read(p)
                    table[(i, st)] = queries(m, st)
            with os.fdopen(w, "wb") as f:
                pickle.dump(table, f)
        except BaseException:  # noqa: BLE001
            code = 3
        finally:
            os._exit(code)
    os.close(w)
    with os.fdopen(r, "rb") as f:
        data = f.read()
    _, status = os.waitpid(pid, 0)
    shutil.rmtree(base, ignore_errors=True)
    if os.waitstatus_to_exitcode(status) != 0 or not data:
        raise HarnessError("isolated reads failed")
    return pickle.loads(data)  # noqa: S301


class Exec:
    def __init__(self, prop: str, case: dict, known: list[list[str]]) -> None:
        self.prop = prop
        self.case = case
        self.known = known
        self.trace = Trace()
        self.violations: list[dict] = []
        self.counters: Counter = Counter()
        self.shape: set = set()
        self.i = 0
        self.base = _scratch()
        self.home = self.base / "home"
        self.home.mkdir()
        self.docs_dir = self.base / "docs"
        self.docs_dir.mkdir()
        self.at_path: dict = {}  # (dir, stem) -> doc index currently stored there
        self.handles: list = []  # (model, doc index, context)
        self.last_read: dict = {}  # module name -> (second, size, doc)
        self._iso: dict = {}
        self._doc_bytes: dict = {}
        self.torn_docs: set = set()
        self.dirty: set = set()  # handles the caller has modified

    def close(self) -> None:
        shutil.rmtree(self.base, ignore_errors=True)

    def _viol(self, check: str, sig: list[str], detail: str) -> None:
        self.violations.append(violation(self.prop, check, sig, self.i, detail))

    def stop(self) -> bool:
        return any(not any(sig_matches(k, v["signature"]) for k in self.known) for v in self.violations)

    def doc_bytes(self, i: int) -> bytes:
        if i not in self._doc_bytes:
            from mxlpy import sbml

            p = self.base / f"src-doc{i}.xml"
            write_doc(i, p)
            self._doc_bytes[i] = p.read_bytes()
        return self._doc_bytes[i]

    def isolated(self, i: int, state_id: int) -> dict:
        """The same document read in isolation: unique stem, own empty cache dir, bytecode off."""
        from mxlpy import sbml

        key = (i, state_id)
        if key in ISO_TABLE:
            return ISO_TABLE[key]
        if key in self._iso:
            return self._iso[key]
        saved_home, saved_bc, saved_root = os.environ.get("HOME"), sys.dont_write_bytecode, CLOCK.root
        iso_home = self.base / f"iso-home-{i}"
        iso_home.mkdir(exist_ok=True)
        try:
            os.environ["HOME"] = str(iso_home)
            sys.dont_write_bytecode = True
            CLOCK.root = ""
            p = self.base / f"iso_{digest_of(self.doc_bytes(i).hex())}.xml"
            p.write_bytes(self.doc_bytes(i))
            m = sbml.read(p)
            out = queries(m, state_id)
        finally:
            os.environ["HOME"] = saved_home or ""
            sys.dont_write_bytecode = saved_bc
            CLOCK.root = saved_root
        self._iso[key] = out
        return out

    def path_of(self, pth: list) -> Path:
        d = self.docs_dir / pth[0]
        d.mkdir(exist_ok=True)
        return d / f"{pth[1]}.xml"

    def step(self, i: int, op: dict) -> None:  # noqa: C901, PLR0912
        from mxlpy import sbml
        from mxlpy.sbml._import import valid_filename

        self.i = i
        k = op["op"]
        if k == "tick":
            CLOCK.now_ns += int(round(op["dt"] * 10**9))
            self.trace.add("tick", op["dt"])
            return
        if k == "write":
            p = self.path_of(op["path"])
            p.write_bytes(self.doc_bytes(op["doc"]))
            # the document's own time stamp follows the simulated clock too (a copy that keeps
            # time stamps, an archive unpacked in one go: same mtime, often same size)
            os.utime(p, ns=(CLOCK.now_ns, CLOCK.now_ns))
            self.at_path[tuple(op["path"])] = op["doc"]
            self.trace.add("write", op["doc"], op["path"])
            return
        if k == "read":
            key = tuple(op["path"])
            if key not in self.at_path:
                self.trace.add("read", "skipped")
                return
            doc = self.at_path[key]
            p = self.path_of(op["path"])
            if op.get("tear_at") is not None:
                # fault: the write of the generated module is cut short (disk full) during THIS read
                CLOCK.tear_at = int(op["tear_at"])
                try:
                    sbml.read(p)
                    self.counters["fault_configured_not_reached:torn_module_write"] += 1
                except Exception as e:  # noqa: BLE001
                    self.counters["fault_fired:torn_module_write"] += 1
                    self.trace.add("read", doc, op["path"], "torn", type(e).__name__)
                finally:
                    CLOCK.tear_at = None
                self.torn_docs.add(doc)
                return
            try:
                m = sbml.read(p)
            except Exception as e:  # noqa: BLE001
                after = "after_torn_write" if doc in self.torn_docs else "no_fault"
                self._viol("read_raised", ["read_raised", type(e).__name__, after], f"sbml.read of document {doc} at {op['path']} raised {type(e).__name__}: {str(e)[:100]} ({after})")
                return
            mod = valid_filename(p.stem)
            # the generated module this read produced: the one its rate functions live in
            size = -1
            try:
                fn = next(iter(m.get_raw_reactions(as_copy=False).values())).fn
                gen = getattr(sys.modules.get(fn.__module__), "__file__", None)
                if gen and os.path.exists(gen):
                    size = os.stat(gen).st_size
            except Exception:  # noqa: BLE001
                size = -1
            sec = CLOCK.now_ns // 10**9
            prev = self.last_read.get(mod)
            ctx = {"same_stem_before": prev is not None, "same_second": bool(prev and prev[0] == sec), "same_size": bool(prev and prev[1] == size), "other_doc": bool(prev and prev[2] != doc)}
            if prev and prev[2] != doc:
                self.counters["probe:same_stem_other_doc"] += 1
                if ctx["same_second"] and ctx["same_size"]:
                    self.counters["probe:same_stem_same_second_same_generated_size"] += 1
                elif not ctx["same_size"]:
                    self.counters["probe:same_stem_different_size"] += 1
            self.last_read[mod] = (sec, size, doc)
            self.handles.append((m, doc, ctx))
            self.shape.add(("read", ctx["same_stem_before"], ctx["same_second"], ctx["same_size"], ctx["other_doc"], self.case["bytecode"]))
            self.trace.add("read", doc, op["path"], size)
            self.check_handle(len(self.handles) - 1, 1, "at_read")
            return
        if k == "codegen":
            # other library calls in the same session: code generation / symbolic conversion
            # of a hand-written twin of one of the documents
            from mxlpy import to_symbolic_model
            from mxlpy.meta import generate_model_code_py, generate_mxlpy_code

            tw = twin_model(op["doc"])
            for fn in (generate_mxlpy_code, generate_model_code_py, to_symbolic_model):
                try:
                    fn(tw)
                except Exception:  # noqa: BLE001
                    self.counters["codegen_call_raised"] += 1
            self.counters["other_library_calls_in_session"] += 1
            self.trace.add("codegen", op["doc"])
            return
        if k == "use_model":
            # the user WORKS with a model it read (changes a parameter / an initial value); that
            # handle is theirs now and is not compared any more - later reads of the document are
            if not self.handles:
                return
            h = op["handle"] % len(self.handles)
            m = self.handles[h][0]
            try:
                if op.get("how") == "var":
                    m.update_variable(m.get_variable_names()[0], 7.25)
                else:
                    m.update_parameter(sorted(m.get_parameter_names())[0], 9.5)
            except Exception as e:  # noqa: BLE001
                self.trace.add("use_model", h, "exc", type(e).__name__)
                return
            self.dirty.add(h)
            self.counters["caller_modified_a_model_it_read"] += 1
            self.trace.add("use_model", h, op.get("how"))
            return
        if k == "query":
            if not self.handles:
                return
            h = op["handle"] % len(self.handles)
            if h in self.dirty:
                return
            if h < len(self.handles) - 1:
                self.counters["probe:older_handle_queried_after_newer_read"] += 1
            self.check_handle(h, op.get("state", 1), "pickled" if op.get("pickled") else "later")
            return
        raise HarnessError(k)

    def check_handle(self, h: int, state_id: int, when: str) -> None:
        m, doc, ctx = self.handles[h]
        bc = "bytecode:on" if self.case["bytecode"] else "bytecode:off"
        if when == "pickled":
            # every parallel routine ships the model to its workers by pickling it
            import pickle

            try:
                m = pickle.loads(pickle.dumps(m))  # noqa: S301
            except Exception as e:  # noqa: BLE001
                newer = any(c["same_stem_before"] and c["other_doc"] for _, _, c in self.handles[h + 1 :])
                if not newer:
                    # the SAME document read again: one document, not two - counted, not charged
                    self.counters["pickle_failed_after_rereading_the_same_document"] += 1
                    return
                self._viol("interference", ["interference", "pickle_failed", type(e).__name__, "newer_read_of_same_stem:" + ("yes" if newer else "no"), bc], f"the model read from document {doc} can no longer be pickled ({type(e).__name__}: {str(e)[:100]})")
                return
            self.counters["pickle_roundtrips"] += 1
        try:
            got = queries(m, state_id)
        except Exception as e:  # noqa: BLE001
            self._viol("interference", ["interference", "query_raised", type(e).__name__, bc], f"querying the model read from document {doc} raised {type(e).__name__}")
            return
        want = self.isolated(doc, state_id)
        self.counters["queries_compared"] += 1
        for what in ("pv", "ic", "rhs", "args"):
            d = diff_values(got[what], want[what], rtol=1e-12)
            if d is not None:
                kind = "stale_module" if ctx["same_stem_before"] and ctx["other_doc"] else "other"
                self._viol(
                    "interference",
                    ["interference", kind, "same_second:" + ("yes" if ctx["same_second"] else "no"), "same_size:" + ("yes" if ctx["same_size"] else "no"), bc, when],
                    f"model read from document {doc} ({doc_spec(doc)['params']}, y0 {doc_spec(doc)['y0']}) answers {what} = {_short(got[what])}; the same document read in isolation gives {_short(want[what])}",
                )
                return
        self.trace.add("query", h, digest_of(canon(got["rhs"])))


def _short(x) -> str:  # noqa: ANN001
    return str(canon(x))[:140]


def gen_case(rng: SimRng, tier: str) -> dict:  # noqa: ARG001
    r = rng("case")
    n = r.randint(4, 14)
    stems = r.sample(STEMS, r.randint(1, 3))
    dirs = r.sample(DIRS, r.randint(1, 2))
    docs = r.sample(range(N_DOCS), r.randint(2, 4))
    if r.random() < 0.3:
        # a pair of near-identical documents (they differ in one constant / one sign / a -1 vs -2)
        docs = list(r.choice([(0, 13), (11, 12), (9, 10), (0, 1), (7, 8), (5, 6)]))
        if r.random() < 0.5:
            docs.reverse()
    ops: list[dict] = []
    nreads = 0
    for _ in range(n):
        x = r.random()
        pth = [r.choice(dirs), r.choice(stems)]
        if x < 0.3 or not ops:
            ops.append({"op": "write", "doc": r.choice(docs), "path": pth})
            if r.random() < 0.7:
                ops.append({"op": "read", "path": pth})
                nreads += 1
        elif x < 0.55:
            if r.random() < 0.12:
                ops.append({"op": "read", "path": pth, "tear_at": r.choice([0, 1, 40, 300, 700])})
            ops.append({"op": "read", "path": pth})
            nreads += 1
        elif x < 0.72:
            ops.append({"op": "tick", "dt": r.choice([0.0, 0.3, 0.3, 1.0, 5.0])})
        elif x < 0.78:
            ops.append({"op": "codegen", "doc": r.choice(docs)})
        elif x < 0.84 and nreads:
            ops.append({"op": "use_model", "handle": r.randrange(nreads), "how": r.choice(["param", "var"])})
        else:
            ops.append({"op": "query", "handle": r.randrange(max(1, nreads)), "state": r.randint(1, 4), "pickled": r.random() < 0.4})
    return {"bytecode": r.random() < 0.6, "ops": ops}


class SessionMachine(Machine):
    name = "session"
    properties = ("C17",)
    isolate_runs = True  # sbml.read leaves process-global state (sys.modules, module-level tables)
    runs = {"quick": 3000, "thorough": 150000}
    run_timeout = 240.0
    rule = (
        "one run = one interpreter session: a seeded sequence of write(document -> path), tick(0 / 0.3 / 1 / 5 s on the simulated file "
        "clock), read(path) -> handle and query(handle) ops over 2-4 small SBML documents (differing in a constant only, in a rate law, or "
        "in the number of components) and paths whose stems are distinct, identical in different directories, or collapse to the same "
        "generated-module name; bytecode caching on (CPython's default) or off. Oracle: every query on every handle, at every later point, "
        "equals the same document read in isolation (unique stem, own empty cache directory, bytecode off). distinct = (same stem read "
        "before?, same second?, same generated size?, other document?, bytecode) cells; non-trivial = a stem was read again holding another "
        "document"
    )
    real_components = ["mxlpy.sbml.read (pysbml parsing, code generation into ~/.cache/mxlpy, import_from_path)", "mxlpy.sbml.write to produce the documents", "CPython import machinery incl. .pyc validation by (whole-second mtime, size)", "the real file system under a scratch HOME"]
    stub_components = ["file mtimes of the generated sources -> simulated clock (pathlib.Path.open wrapped for the scratch cache directory only)", "sys.dont_write_bytecode as a configuration bit"]
    assumptions = [
        "ONLY the clause 'two documents read in one session do not interfere' is decided; import fidelity (the document's equations) is a pure function of the document and is not decided - an error the isolated read shares is not reported",
        "isolation = every document read in a pristine forked child (own HOME, unique stem, bytecode off) once per check start; the checking process itself performs no read before the sessions, apart from the separate-process equivalence probe",
    ]

    def setup(self, tier: str) -> None:  # noqa: ARG002
        """Once per check start: (1) every document is read in a pristine forked child (the
        oracle table); (2) for two documents the same read is repeated in a genuinely separate
        interpreter and must agree.  The checking process itself reads nothing here."""
        import json

        from mxlpy import sbml

        ISO_TABLE.clear()
        ISO_TABLE.update(compute_iso_table())
        base = _scratch()
        try:
            code = (
                "import sys, json\nfrom pathlib import Path\nfrom simkit import seams\nseams.install_quiet()\n"
                "from simkit.core import canon\nfrom simkit.machines.session import queries\n"
                "from mxlpy import sbml\nm = sbml.read(Path(sys.argv[1]))\n"
                "print('RESULT', json.dumps(canon(queries(m, 1))))\n"
            )
            ok = True
            for i in (1, 7):
                p = base / f"sep_doc{i}.xml"
                pid = os.fork()  # write the document without touching this process' library state
                if pid == 0:
                    try:
                        write_doc(i, p)
                    finally:
                        os._exit(0)
                os.waitpid(pid, 0)
                env = dict(os.environ, HOME=str(base / f"sep-home{i}"), PYTHONDONTWRITEBYTECODE="1")
                os.makedirs(env["HOME"], exist_ok=True)
                out = subprocess.run([sys.executable, "-P", "-c", code, str(p)], env=env, capture_output=True, text=True, timeout=300, check=False)
                line = next((ln for ln in out.stdout.splitlines() if ln.startswith("RESULT ")), None)
                if line is None:
                    raise HarnessError(f"separate-process read failed: {out.stderr[-400:]}")
                sep = json.loads(line[7:])
                here = json.loads(json.dumps(canon(ISO_TABLE[(i, 1)])))
                ok = ok and (sep == here)
            self.isolation_equivalence = ok
            if not ok:
                raise HarnessError("isolated read in a forked child differs from a read in a separate interpreter")
        finally:
            shutil.rmtree(base, ignore_errors=True)

    def extra_evidence(self, tier: str) -> dict:  # noqa: ARG002
        return {"isolation_equivalence_checked_in_separate_process": getattr(self, "isolation_equivalence", None)}

    def run_seed(self, seed: int, tier: str, known: list[list[str]]) -> RunResult:
        case = gen_case(SimRng(seed), tier)
        case["seed"] = seed
        return self.replay(case, known)

    def replay(self, case: dict, known: list[list[str]]) -> RunResult:
        ex = Exec(self.prop, case, known)
        saved_home, saved_bc = os.environ.get("HOME"), sys.dont_write_bytecode
        for name in [n for n in sys.modules if n.startswith("mb_")]:
            sys.modules.pop(name, None)
        try:
            os.environ["HOME"] = str(ex.home)
            sys.dont_write_bytecode = not case["bytecode"]
            install_clock(str(ex.home))
            for i, op in enumerate(case["ops"]):
                ex.step(i, op)
                if ex.stop():
                    break
            ex.counters["file_clock_stamps"] += CLOCK.stamped
            ex.counters["file_clock_seam:" + ("sim" if CLOCK.stamped or not ex.handles else "bypassed")] += 1
        finally:
            uninstall_clock()
            os.environ["HOME"] = saved_home or ""
            sys.dont_write_bytecode = saved_bc
            ex.close()
        ex.counters["bytecode:" + ("on" if case["bytecode"] else "off")] += 1
        shape = digest_of(sorted(str(s) for s in ex.shape))
        return RunResult(case=case, violations=ex.violations, digest=ex.trace.digest(), counters=ex.counters, shape=shape, nontrivial=ex.counters.get("probe:same_stem_other_doc", 0) > 0, sim_time=(CLOCK.now_ns - 1_700_000_000 * 10**9) / 1e9, steps=ex.trace.n)

    def simplifications(self, case: dict):  # noqa: ANN201
        if case["bytecode"]:
            new = copy.deepcopy(case)
            new["bytecode"] = False
            yield new
        for i, op in enumerate(case["ops"]):
            if op["op"] == "tick" and op["dt"] != 0.0:
                new = copy.deepcopy(case)
                new["ops"][i]["dt"] = 0.0
                yield new
            if op["op"] in ("write", "read") and op["path"] != ["A", "model"]:
                new = copy.deepcopy(case)
                old = op["path"]
                for o in new["ops"]:
                    if o.get("path") == old:
                        o["path"] = ["A", "model"]
                yield new
