"""C10 — result views are consistent functions of states and segment parameters (DESIGN §4.4)."""

from __future__ import annotations

import copy
from collections import Counter

import numpy as np

from simkit import fnlib
from simkit.core import HarnessError, Machine, RunResult, Trace, canon, diff_values, digest_of, sig_matches, violation
from simkit.rng import SimRng

POISON = 13.0

ARG_FLAGS = [
    "include_variables", "include_parameters", "include_derived_parameters", "include_derived_variables",
    "include_reactions", "include_surrogate_variables", "include_surrogate_fluxes", "include_readouts",
]


def _coef_neg(y):  # noqa: ANN001, ANN202
    return -(1.0 + 0.5 * y)


def _ratio(x, y):  # noqa: ANN001, ANN202
    return x / (y + 1.0)


class SimInterrupt(KeyboardInterrupt):
    """The user interrupts a (slow) view computation: raised from inside a model function."""


TRIP: list = [None]  # None = not armed; k = raise at the k-th evaluation of the derived value `tot` from now


def _sum2(x, y):  # noqa: ANN001, ANN202
    if TRIP[0] is not None:
        if TRIP[0] <= 0:
            TRIP[0] = None
            raise SimInterrupt
        TRIP[0] -= 1
    return x + y


def _surr(x, ks):  # noqa: ANN001, ANN202
    return (ks * x, 2.0 * x)


def view_model(name: str):  # noqa: ANN201
    """V1: parameter-dependent computed coefficient (n), derived variable/parameter, readout.
    V2: V1 + a STATE-dependent computed coefficient on v3.
    V3: V1 + a surrogate with a flux output and a plain output.
    V4: V3 whose ONLY computed coefficient sits on the surrogate flux (none on a reaction)."""
    from mxlpy import Derived, Model

    m = Model()
    m.add_parameters({"c": 2.0, "k1": 1.0, "k2": 0.5, "k3": 0.25, "n": 2.0})
    m.add_variables({"x": 1.0, "y": 0.5})
    m.add_derived("tot", _sum2, args=["x", "y"])
    m.add_derived("k12", fnlib.add, args=["k1", "k2"])
    m.add_reaction("vin", fnlib.const, args=["c"], stoichiometry={"x": 1})
    # (V4: no REACTION carries a computed coefficient - only its surrogate flux does)
    m.add_reaction("v1", fnlib.ma1, args=["x", "k1"], stoichiometry={"x": -1, "y": 2.0 if name == "V4" else "n"})
    # an explicit zero coefficient: v2 neither produces nor consumes x
    m.add_reaction("v2", fnlib.ma1, args=["y", "k2"], stoichiometry={"y": -1, "x": 0.0})
    if name == "V2":
        m.add_reaction("v3", fnlib.ma1, args=["x", "k3"], stoichiometry={"x": Derived(fn=_coef_neg, args=["y"])})
    else:
        m.add_reaction("v3", fnlib.ma1, args=["x", "k3"], stoichiometry={"x": -1})
    m.add_readout("ratio", _ratio, args=["x", "y"])
    if name == "V3":
        from mxlpy.surrogates import qss

        m.add_parameter("ks", 0.3)
        m.add_surrogate("s1", qss.Surrogate(model=_surr, args=["x", "ks"], outputs=["vs", "aux"], stoichiometries={"vs": {"x": -1.0, "y": 1.0}}))
    if name == "V4":
        from mxlpy.surrogates import qss

        m.add_parameter("ks", 0.3)
        m.add_surrogate("s1", qss.Surrogate(model=_surr, args=["x", "ks"], outputs=["vs", "aux"], stoichiometries={"vs": {"x": -1.0, "y": Derived(fn=fnlib.const, args=["n"])}}))
    return m


PARAMS = {"V1": ["c", "k1", "k2", "k3", "n"], "V2": ["c", "k1", "k2", "k3", "n"], "V3": ["c", "k1", "k2", "k3", "n", "ks"], "V4": ["c", "k1", "k2", "k3", "n", "ks"]}


class Exec:
    def __init__(self, prop: str, case: dict, known: list[list[str]]) -> None:
        self.prop = prop
        self.case = case
        self.known = known
        self.trace = Trace()
        self.violations: list[dict] = []
        self.counters: Counter = Counter()
        self.shape: set = set()
        self.i = 0
        self.mutated = False
        self.first_reads: dict = {}

    def _viol(self, check: str, sig: list[str], detail: str) -> None:
        self.violations.append(violation(self.prop, check, sig, self.i, detail))

    def stop(self) -> bool:
        return any(not any(sig_matches(k, v["signature"]) for k in self.known) for v in self.violations)

    # ------------------------------------------------------------------
    def build(self) -> bool:
        """Run the segment history; record per-segment parameter values independently."""
        from mxlpy import Simulator, make_protocol
        from mxlpy.integrators import Scipy

        case = self.case
        self.model = view_model(case["model"])
        # the real Scipy integrator behind a content-keyed fault wrapper: integration fails
        # while the parameter c holds the poison value (only `continue` ops with fail=True set it)
        from simkit import integrators

        sim = Simulator(self.model, integrator=integrators.FaultyFactory("scipy", poison=(POISON,)))
        del Scipy
        p = dict(self.model.get_parameter_values())
        self.seg_params: list[dict] = []
        T = 0.0  # noqa: N806
        for h in case["history"]:
            k = h["op"]
            n_before = len(sim.variables or [])
            if k == "update_parameters":
                sim.update_parameters({a: float(b) for a, b in h["items"]})
                p.update({a: float(b) for a, b in h["items"]})
            elif k == "override":
                sim.update_variables({a: float(b) for a, b in h["items"]})
            elif k == "simulate":
                T += float(h["dt"])  # noqa: N806
                sim.simulate(T, steps=h["steps"])
                for _ in range(len(sim.variables or []) - n_before):
                    self.seg_params.append(dict(p))
            elif k == "protocol":
                steps = h["steps"]
                sim.simulate_protocol(make_protocol([(float(d), {a: float(b) for a, b in pv.items()}) for d, pv in steps]), time_points_per_step=h["tpps"])
                for d, pv in steps:
                    p.update({a: float(b) for a, b in pv.items()})
                    self.seg_params.append(dict(p))
                    T += float(d)  # noqa: N806
            else:
                raise HarnessError(k)
        res = sim.get_result()
        if isinstance(res.value, Exception):
            raise HarnessError(f"history failed: {res.value}")
        self.res = res.value
        self.sim = sim
        self.T_end = T
        frames = list(sim.variables or [])
        if len(frames) != len(self.seg_params):
            raise HarnessError("segment bookkeeping out of sync")
        self.segments = [(np.asarray(f.index, dtype=float), f.to_numpy(dtype=float), list(f.columns)) for f in frames]
        self.nrows = sum(len(s[0]) for s in self.segments)
        self.oracle_rows()
        self.records = {"A": self._record()}
        self.all_seg_params = list(self.seg_params)
        return True

    _REC = ("res", "segments", "seg_params", "nrows", "o_args", "o_rhs", "o_stoich", "first_reads")

    def _record(self) -> dict:
        return {k: getattr(self, k) for k in self._REC}

    def _use(self, which: str) -> None:
        """Point the executor at one of the result objects the user holds."""
        rec = self.records.get(which) or self.records["A"]
        for k in self._REC:
            setattr(self, k, rec[k])

    def oracle_rows(self) -> None:
        """Per row: a fresh model under the segment's parameters, asked at the row's state/time."""
        import pandas as pd

        name = self.case["model"]
        self.o_args: list = []
        self.o_rhs: list = []
        self.o_stoich: list = []
        fresh0 = view_model(name)
        self.fresh0 = fresh0
        for (times, vals, cols), p in zip(self.segments, self.seg_params, strict=True):
            fm = view_model(name)
            fm.update_parameters({k: float(v) for k, v in p.items()})
            a_rows, r_rows, s_rows = [], [], []
            for t, row in zip(times.tolist(), vals, strict=True):
                st = dict(zip(cols, (float(v) for v in row), strict=True))
                a_rows.append(fm.get_args(st, t, include_time=False, include_readouts=True))
                r_rows.append(fm.get_right_hand_side(st, t))
                s_rows.append(fm.get_stoichiometries(st, t))
            self.o_args.append(pd.DataFrame(a_rows, index=times))
            self.o_rhs.append(pd.DataFrame(r_rows, index=times))
            self.o_stoich.append(s_rows)

    # ------------------------------------------------------------------
    def norm_arg(self, spec):  # noqa: ANN001, ANN201
        if spec is None:
            return None
        if spec["kind"] == "scalar":
            return float(spec["value"])
        if spec["kind"] == "per_segment":
            return [float(spec["values"][i % len(spec["values"])]) for i in range(len(self.segments))]
        return [float(spec["values"][i % len(spec["values"])]) for i in range(self.nrows)]

    def apply_norm(self, frames: list, spec) -> list:  # noqa: ANN001
        if spec is None:
            return frames
        if spec["kind"] == "scalar":
            return [f / float(spec["value"]) for f in frames]
        if spec["kind"] == "per_segment":
            fs = self.norm_arg(spec)
            return [f / fs[i] for i, f in enumerate(frames)]
        rs = np.array(self.norm_arg(spec))
        out, start = [], 0
        for f in frames:
            out.append(f.div(rs[start : start + len(f)], axis=0))
            start += len(f)
        return out

    def expected(self, op: dict) -> list:  # noqa: C901, PLR0912
        """Expected per-segment frames of a reader op (before concatenation)."""
        v = op["view"]
        names_of = self.fresh0.get_arg_names
        var_names = self.fresh0.get_variable_names()
        if v in ("variables", "get_variables"):
            fl = op.get("flags") or {"include_derived_variables": True, "include_readouts": True, "include_surrogate_variables": True}
            cols = names_of(include_time=False, include_variables=True, include_parameters=False, include_derived_parameters=False,
                            include_derived_variables=fl["include_derived_variables"], include_reactions=False,
                            include_surrogate_variables=fl["include_surrogate_variables"], include_surrogate_fluxes=False, include_readouts=fl["include_readouts"])
            if not any(fl.values()):
                cols = var_names
            frames = [a.loc[:, cols] for a in self.o_args]
        elif v in ("fluxes", "get_fluxes"):
            inc = op.get("include_surrogates", True)
            cols = names_of(include_time=False, include_variables=False, include_parameters=False, include_derived_parameters=False, include_derived_variables=False,
                            include_reactions=True, include_surrogate_variables=False, include_surrogate_fluxes=inc, include_readouts=False)
            frames = [a.loc[:, cols] for a in self.o_args]
        elif v == "get_args":
            fl = op["flags"]
            cols = names_of(include_time=False, **fl)
            frames = [a.loc[:, cols] for a in self.o_args]
        elif v == "get_combined":
            c1 = names_of(include_time=False, include_variables=True, include_parameters=False, include_derived_parameters=False, include_derived_variables=True,
                          include_reactions=False, include_surrogate_variables=True, include_surrogate_fluxes=False, include_readouts=True)
            c2 = names_of(include_time=False, include_variables=False, include_parameters=False, include_derived_parameters=False, include_derived_variables=False,
                          include_reactions=True, include_surrogate_variables=False, include_surrogate_fluxes=True, include_readouts=False)
            frames = [a.loc[:, c1 + c2] for a in self.o_args]
        elif v == "get_right_hand_side":
            frames = [r.copy() for r in self.o_rhs]
        elif v in ("get_producers", "get_consumers"):
            import pandas as pd

            var = op["variable"]
            sign = 1.0 if v == "get_producers" else -1.0
            frames = []
            for a, srows in zip(self.o_args, self.o_stoich, strict=True):
                first = srows[0]
                names = [c for c in first.columns if sign * float(first.loc[var, c]) > 0]
                f = a.loc[:, names].copy()
                if op.get("scaled"):
                    for j, s in enumerate(srows):
                        for c in names:
                            f.iloc[j, f.columns.get_loc(c)] *= sign * float(s.loc[var, c])
                frames.append(f)
        else:
            raise HarnessError(v)
        return frames

    def call(self, op: dict):  # noqa: ANN201
        r = self.res
        v = op["view"]
        kw = {}
        if "concatenated" in op and v not in ("variables", "fluxes", "get_combined", "get_new_y0"):
            kw["concatenated"] = op["concatenated"]
        if v not in ("variables", "fluxes", "get_combined", "get_new_y0"):
            kw["normalise"] = self.norm_arg(op.get("normalise"))
        if v == "variables":
            return r.variables
        if v == "fluxes":
            return r.fluxes
        if v == "get_combined":
            return r.get_combined()
        if v == "get_new_y0":
            return r.get_new_y0()
        if v == "get_variables":
            return r.get_variables(**op["flags"], **kw)
        if v == "get_fluxes":
            return r.get_fluxes(include_surrogates=op.get("include_surrogates", True), **kw)
        if v == "get_args":
            return r.get_args(**op["flags"], **kw)
        if v == "get_right_hand_side":
            return r.get_right_hand_side(**kw)
        if v == "get_producers":
            return r.get_producers(op["variable"], scaled=bool(op.get("scaled")), **kw)
        if v == "get_consumers":
            return r.get_consumers(op["variable"], scaled=bool(op.get("scaled")), **kw)
        raise HarnessError(v)

    def step(self, i: int, op: dict) -> None:  # noqa: C901, PLR0912
        import pandas as pd

        self.i = i
        if op["op"] == "continue":
            # the simulator carries on AFTER the result was taken; the result the user holds
            # is a finished object and must keep answering as before
            if op.get("fail"):
                # the continuation FAILS (solver gives up): nothing may be added, and the results
                # the user already holds must not notice
                old = float(self.model.get_parameter_values()["c"])
                try:
                    self.sim.update_parameter("c", POISON)
                    self.sim.simulate(self.T_end + float(op["dt"]), steps=2)
                except Exception as e:  # noqa: BLE001
                    self.trace.add("continue_fail", "exc", type(e).__name__)
                finally:
                    self.sim.update_parameter("c", old)
                self.counters["fault_fired:continuation_failed_after_result_taken"] += 1
                self.trace.add("continue_fail", len(self.sim.variables or []))
                return
            try:
                p_now = {k: float(v) for k, v in self.model.get_parameter_values().items()}
                self.T_end += float(op["dt"])
                self.sim.simulate(self.T_end, steps=2)
            except Exception as e:  # noqa: BLE001
                self.trace.add("continue", "exc", type(e).__name__)
                return
            self.all_seg_params.append(p_now)
            self.counters["simulator_continued_after_result_taken"] += 1
            self.trace.add("continue", op["dt"])
            return
        if op["op"] == "take_second":
            # a SECOND result object taken from the same simulator at a later stage; the user
            # now holds two and reads them in turn
            res = self.sim.get_result()
            frames = list(self.sim.variables or [])
            if isinstance(res.value, Exception) or len(frames) != len(self.all_seg_params) or "B" in self.records:
                self.trace.add("take_second", "skipped")
                return
            self._use("A")
            self.records["A"] = self._record()
            self.res = res.value
            self.seg_params = list(self.all_seg_params)
            self.segments = [(np.asarray(f.index, dtype=float), f.to_numpy(dtype=float), list(f.columns)) for f in frames]
            self.nrows = sum(len(s[0]) for s in self.segments)
            self.first_reads = {}
            self.oracle_rows()
            self.records["B"] = self._record()
            self._use("A")
            self.counters["second_result_taken_from_the_same_simulator"] += 1
            self.trace.add("take_second", len(frames))
            return
        if op["op"] == "mutate":
            # the user keeps working with the model after the simulation
            if op["how"] == "update":
                self.model.update_parameters({a: float(b) for a, b in op["items"]})
            else:
                self.model.scale_parameters({a: float(b) for a, b in op["items"]})
            self.mutated = True
            self.trace.add("mutate", op["items"])
            self.counters["posthoc_mutation"] += 1
            return
        which = op.get("which", "A") if getattr(self, "records", None) and op.get("which", "A") in self.records else "A"
        self._use(which)
        v = op["view"]
        nk = (op.get("normalise") or {}).get("kind", "none")
        conc = op.get("concatenated", True)
        first = "first_read_after_mutation" if (self.mutated and not self.first_reads) else ("after_mutation" if self.mutated else "clean")
        self.shape.add((v, nk, conc, bool(op.get("scaled")), first, self.case["model"], len(self.segments) > 1))
        tag = [v, f"normalise:{nk}", "concatenated" if conc else "list", f"model:{self.case['model']}", "multi_segment" if len(self.segments) > 1 else "one_segment"]
        if self.counters.get("simulator_continued_after_result_taken"):
            tag.append("simulator_continued_after_result_taken")
        if "B" in self.records:
            tag.append(f"two_results_held:reading_{which}")
        if op.get("interrupt_at") is not None:
            # the user interrupts this read while the model is being evaluated (Ctrl-C in a
            # notebook), then simply reads again: the answer must be the usual one
            p_before = {k: float(x) for k, x in self.model.get_parameter_values().items()}
            TRIP[0] = int(op["interrupt_at"])
            try:
                self.call(op)
                self.trace.add("interrupt", "not_reached")
            except SimInterrupt:
                self.counters["fault_fired:read_interrupted"] += 1
                self.interrupted = True
                self.trace.add("interrupt", "fired")
            except Exception as e:  # noqa: BLE001
                self.trace.add("interrupt", "exc", type(e).__name__)
            finally:
                TRIP[0] = None
            if {k: float(x) for k, x in self.model.get_parameter_values().items()} != p_before:
                self.counters["observed:model_parameters_left_changed_by_interrupted_read"] += 1
                self.model.update_parameters(p_before)
        if getattr(self, "interrupted", False):
            tag.append("after_interrupted_read")
        if getattr(self, "scribbled", False):
            tag.append("after_caller_scribbled_on_a_returned_view")
        try:
            got = self.call(op)
        except HarnessError:
            raise
        except Exception as e:  # noqa: BLE001
            self.trace.add("read", v, "exc", type(e).__name__)
            self._viol("view_error", ["view_error", *tag, type(e).__name__], f"{v}({ {k: op[k] for k in op if k not in ('op', 'view')} }) raised {type(e).__name__}: {str(e)[:120]}")
            return
        self.counters[f"read:{v}"] += 1
        self.trace.add("read", v, digest_of(canon(got)))
        key = digest_of({k: op[k] for k in op if k != "op"})
        if key in self.first_reads:
            d = diff_values(got, self.first_reads[key], rtol=0.0, atol=0.0)
            if d is not None:
                self._viol("reread_differs", ["reread_differs", *tag], f"repeated read of {v} differs from the first read ({d})")
                return
            self.counters["repeated_reads"] += 1
        else:
            self.first_reads[key] = copy.deepcopy(got)
        if op.get("scribble"):
            # the caller works on what it was handed IN PLACE (rescales a frame for a plot);
            # everything above was compared against copies, later reads must not notice
            keep = copy.deepcopy(got)
            try:
                objs = got if isinstance(got, list) else [got]
                for o in objs:
                    if isinstance(o, pd.DataFrame) and o.size:
                        o.iloc[:, :] = o.to_numpy(dtype=float) * 1000.0 + 7.0
                    elif isinstance(o, dict):
                        for kk in list(o):
                            o[kk] = -1.0
                self.counters["caller_scribbled_on_returned_view"] += 1
                self.scribbled = True
            except Exception as e:  # noqa: BLE001
                self.trace.add("scribble", "exc", type(e).__name__)
            got = keep
        if v == "get_new_y0":
            times, vals, cols = self.segments[-1]
            want = dict(zip(cols, (float(x) for x in vals[-1]), strict=True))
            if diff_values({k: float(x) for k, x in got.items()}, want, rtol=1e-12) is not None:
                self._viol("new_y0_wrong", ["new_y0_wrong", *tag], f"get_new_y0() = {got}, last row of the last segment = {want}")
            return
        frames = self.expected(op)
        if v in ("get_producers", "get_consumers"):
            pass
        frames = self.apply_norm(frames, op.get("normalise")) if v not in ("variables", "fluxes", "get_combined") else frames
        if v in ("variables", "fluxes", "get_combined") or conc:
            want = pd.concat(frames, axis=0)
            if not isinstance(got, pd.DataFrame):
                self._viol("view_shape", ["view_shape", *tag, "not_a_frame"], f"{v} with concatenated=True returned {type(got).__name__}")
                return
            d = diff_values(got, want, rtol=1e-9, atol=1e-12)
            if d is not None:
                self.report_mismatch(tag, v, got, want, d, op)
            return
        if not isinstance(got, list) or len(got) != len(frames):
            self._viol("view_shape", ["view_shape", *tag, "not_a_list_of_segments"], f"{v} with concatenated=False returned {type(got).__name__} of length {len(got) if hasattr(got, '__len__') else '?'} for {len(frames)} segments")
            return
        for si, (g, w) in enumerate(zip(got, frames, strict=True)):
            d = diff_values(g, w, rtol=1e-9, atol=1e-12)
            if d is not None:
                self.report_mismatch([*tag, f"segment:{'first' if si == 0 else 'later'}"], v, g, w, d, op)
                return

    def report_mismatch(self, tag: list[str], v: str, got, want, d: str, op: dict) -> None:  # noqa: ANN001
        detail = f"{v}: {d} differs from the model's values at each row's state/time under its segment's parameters"
        if d == "value":
            gv, wv = got.to_numpy(dtype=float), want.to_numpy(dtype=float)
            bad = ~np.isclose(gv, wv, rtol=1e-9, atol=1e-12, equal_nan=True)
            r, c = np.argwhere(bad)[0]
            detail = f"{v}: row {r} (t={got.index[r]}), column {got.columns[c]}: view gives {gv[r, c]}, the model at that row's state under its segment's parameters gives {wv[r, c]}"
        coef = "coeff:state_dependent" if self.case["model"] == "V2" and v in ("get_producers", "get_consumers") and op.get("scaled") else "plain"
        self._viol("view_mismatch", ["view_mismatch", *tag, d, coef, "posthoc_mutation" if self.mutated else "no_mutation"], detail)

    def final_checks(self) -> None:
        """stoichiometry x reported fluxes = reported derivatives, row by row; scaled
        producers minus scaled consumers = derivative."""
        self.i = len(self.case["ops"])
        try:
            fl = self.res.get_fluxes(concatenated=False)
            rhs = self.res.get_right_hand_side(concatenated=False)
        except Exception as e:  # noqa: BLE001
            self._viol("view_error", ["view_error", "final", type(e).__name__], f"reading fluxes / right-hand side raised {type(e).__name__}")
            return
        if len(fl) != len(self.o_stoich) or len(rhs) != len(self.o_stoich):
            cont = "after_simulator_continued" if self.counters.get("simulator_continued_after_result_taken") else "no_continuation"
            self._viol("held_result_changed", ["held_result_changed", f"model:{self.case['model']}", cont], f"the result object held {len(self.o_stoich)} segments when it was taken and now reports {len(fl)} flux segments / {len(rhs)} derivative segments")
            return
        for f, r, srows in zip(fl, rhs, self.o_stoich, strict=True):
            for j, s in enumerate(srows):
                v = f.iloc[j]
                want = s.loc[:, list(v.index)].to_numpy(dtype=float) @ v.to_numpy(dtype=float)
                got = r.iloc[j].loc[list(s.index)].to_numpy(dtype=float)
                if not np.allclose(got, want, rtol=1e-9, atol=1e-12):
                    self._viol("stoich_times_flux_not_rhs", ["stoich_times_flux_not_rhs", f"model:{self.case['model']}"], f"row {j}: N*fluxes = {want.tolist()} but reported derivatives {got.tolist()}")
                    return
        self.counters["final_balance_checks"] += 1


def gen_case(rng: SimRng, tier: str) -> dict:  # noqa: ARG001, C901, PLR0912
    r = rng("case")
    model = rng.weighted("case", [("V1", 3), ("V2", 3), ("V3", 2), ("V4", 2)])
    params = PARAMS[model]
    hist = []
    nseg = r.randint(1, 4)
    for s in range(nseg):
        if s > 0 and r.random() < 0.8:
            ns = r.sample([p for p in params if p != "n"] + (["n"] if r.random() < 0.3 else []), r.randint(1, 2))
            hist.append({"op": "update_parameters", "items": [[n, r.choice([0.5, 1.0, 1.5, 2.0, 3.0])] for n in ns]})
        if s > 0 and r.random() < 0.25:
            hist.append({"op": "override", "items": [[r.choice(["x", "y"]), r.choice([0.5, 2.0, 4.0])]]})
        if r.random() < 0.2:
            pn = r.choice(["c", "k1", "k2"])
            hist.append({"op": "protocol", "steps": [[r.choice([0.5, 1.0]), {pn: r.choice([0.5, 1.0, 2.0, 3.0])}] for _ in range(r.randint(1, 2))], "tpps": r.choice([2, 3])})
        else:
            hist.append({"op": "simulate", "dt": r.choice([0.5, 1.0, 2.0]), "steps": r.choice([2, 3, 4])})
    ops = []
    views = ["variables", "fluxes", "get_args", "get_variables", "get_fluxes", "get_combined", "get_right_hand_side", "get_producers", "get_consumers", "get_new_y0"]
    for _ in range(r.randint(3, 10)):
        if r.random() < 0.2:
            ns = r.sample(params, r.randint(1, 2))  # includes the coefficient parameter n (kept positive)
            ops.append({"op": "mutate", "how": r.choice(["update", "scale"]), "items": [[n, r.choice([0.25, 0.5, 2.0, 5.0])] for n in ns]})
            continue
        if r.random() < 0.08:
            ops.append({"op": "continue", "dt": r.choice([0.5, 1.0])})
            if r.random() < 0.3:
                ops[-1]["fail"] = True
            if r.random() < 0.6:
                ops.append({"op": "take_second"})
            continue
        if ops and r.random() < 0.25:
            prev = [o for o in ops if o["op"] == "read"]
            if prev:
                ops.append(copy.deepcopy(r.choice(prev)))
                continue
        v = r.choice(views)
        op: dict = {"op": "read", "view": v, "which": r.choice(["A", "A", "B"])}
        if v not in ("variables", "fluxes", "get_combined", "get_new_y0"):
            op["concatenated"] = r.random() < 0.6
            x = r.random()
            if x < 0.4:
                op["normalise"] = None
            elif x < 0.6:
                op["normalise"] = {"kind": "scalar", "value": r.choice([2.0, 0.5, 4.0])}
            elif x < 0.8:
                op["normalise"] = {"kind": "per_segment", "values": [r.choice([2.0, 0.5, 4.0, 8.0]) for _ in range(4)]}
            else:
                op["normalise"] = {"kind": "per_row", "values": [r.choice([2.0, 0.5, 4.0, 8.0, 1.0]) for _ in range(7)]}
        if r.random() < 0.12:
            op["scribble"] = True
        if r.random() < 0.06:
            op["interrupt_at"] = r.choice([0, 1, 2, 3, 4, 5, 6, 8, 9, 11, 13, 16])
        if v == "get_args":
            op["flags"] = {f: r.random() < 0.6 for f in ARG_FLAGS}
            if not any(op["flags"].values()):
                op["flags"]["include_variables"] = True
        if v == "get_variables":
            op["flags"] = {f: r.random() < 0.6 for f in ("include_derived_variables", "include_readouts", "include_surrogate_variables")}
        if v == "get_fluxes":
            op["include_surrogates"] = r.random() < 0.6
        if v in ("get_producers", "get_consumers"):
            op["variable"] = r.choice(["x", "y"])
            op["scaled"] = r.random() < 0.6
        ops.append(op)
    return {"model": model, "history": hist, "ops": ops}


class ViewsMachine(Machine):
    name = "views"
    properties = ("C10",)
    runs = {"quick": 4000, "thorough": 200000}
    run_timeout = 240.0
    rule = (
        "one run = one seeded simulation history (1-4 segments; parameter updates, overrides, protocol steps between them; models with a "
        "derived variable, a derived parameter, a readout, a parameter-defined coefficient, a STATE-dependent computed coefficient, or a "
        "surrogate) followed by a seeded sequence of 3-10 reader and mutator steps on the shared result/model: every public view with "
        "concatenated in {True, False} and normalise in {None, scalar, per-segment, per-row}, repeated reads, and post-hoc parameter "
        "mutations of the model by the user (possibly before the first lazy read). Oracle per row: a fresh model under that segment's "
        "independently recorded parameter values asked at that row's state and time. distinct = (view, normalise kind, concatenated, "
        "scaled, first-read-after-mutation?, model, multi-segment?) cells; non-trivial = multi-segment result or a post-hoc mutation"
    )
    real_components = ["mxlpy.Simulation (all public views, lazy argument table, normalisation, producers/consumers)", "mxlpy.Simulator + Scipy to produce the segments", "mxlpy.Model evaluation"]
    stub_components = [
        "the real Scipy integrator behind a content-keyed fault wrapper (only the continuations that say fail=True trip it)",
        "a model function of the harness's own view models raises SimInterrupt(KeyboardInterrupt) at the k-th evaluation in the reads that say so",
    ]
    assumptions = ["model evaluation on a fresh model is trusted (C01/C13 are not this property)", "coefficient signs are fixed across segments; rows per segment >= 2 so that per-segment and per-row factors cannot be confused"]

    def run_seed(self, seed: int, tier: str, known: list[list[str]]) -> RunResult:
        case = gen_case(SimRng(seed), tier)
        case["seed"] = seed
        return self.replay(case, known)

    def replay(self, case: dict, known: list[list[str]]) -> RunResult:
        ex = Exec(self.prop, case, known)
        ex.build()
        for i, op in enumerate(case["ops"]):
            ex.step(i, op)
            if ex.stop():
                break
        for which in list(getattr(ex, "records", {"A": None})):
            if not ex.stop():
                ex._use(which)
                ex.final_checks()
        shape = digest_of(sorted(str(s) for s in ex.shape))
        for s in ex.shape:
            ex.counters[f"cell:{s[0]}|{s[1]}|{'conc' if s[2] else 'list'}"] += 1
        return RunResult(case=case, violations=ex.violations, digest=ex.trace.digest(), counters=ex.counters, shape=shape, nontrivial=len(ex.segments) > 1 or ex.mutated, sim_time=0.0, steps=ex.trace.n)

    def simplifications(self, case: dict):  # noqa: ANN201
        h = case["history"]
        if len(h) > 1:
            for i in range(len(h)):
                if h[i]["op"] in ("simulate", "protocol") and sum(1 for x in h if x["op"] in ("simulate", "protocol")) == 1:
                    continue
                new = copy.deepcopy(case)
                new["history"] = h[:i] + h[i + 1 :]
                yield new
        for i, op in enumerate(case["ops"]):
            if op.get("normalise"):
                new = copy.deepcopy(case)
                new["ops"][i]["normalise"] = None
                yield new
            if op.get("concatenated") is False:
                new = copy.deepcopy(case)
                new["ops"][i]["concatenated"] = True
                yield new
            if op.get("scaled"):
                new = copy.deepcopy(case)
                new["ops"][i]["scaled"] = False
                yield new
        if case["model"] != "V1":
            new = copy.deepcopy(case)
            new["model"] = "V1"
            yield new
