"""Registry: property id -> machine class."""

from simkit.machines.crash import CrashMachine
from simkit.machines.edits import EditsMachine

REGISTRY = {
    "C03": EditsMachine,
    "C19": CrashMachine,
}
