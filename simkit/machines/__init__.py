"""Registry: property id -> machine class."""

from simkit.machines.edits import EditsMachine

REGISTRY = {
    "C03": EditsMachine,
}
