"""Registry: property id -> machine class."""

from simkit.machines.crash import CrashMachine
from simkit.machines.edits import EditsMachine
from simkit.machines.fit import FitMachine
from simkit.machines.mca import McaMachine
from simkit.machines.scans import ScansMachine
from simkit.machines.session import SessionMachine
from simkit.machines.simtime import SimTimeMachine
from simkit.machines.steady import SteadyMachine
from simkit.machines.views import ViewsMachine

REGISTRY = {
    "C03": EditsMachine,
    "C04": SimTimeMachine,
    "C09": ScansMachine,
    "C10": ViewsMachine,
    "C14": SimTimeMachine,
    "C15": SteadyMachine,
    "C17": SessionMachine,
    "C18": McaMachine,
    "C19": CrashMachine,
    "C20": FitMachine,
}
