"""C15 — steady-state runs: failure reporting under stepper faults and budget exhaustion,
bounded search in simulated time; the analytic-accuracy clause is sampled in the same runs
(DESIGN §4.2, C15 paragraph).  Only the repo's real Scipy integrator is used here."""

from __future__ import annotations

import copy
from collections import Counter

import numpy as np

from simkit import integrators, models
from simkit.core import HarnessError, Machine, RunResult, Trace, digest_of, fnum, sig_matches, violation
from simkit.rng import SimRng

STABLE = ("F1", "F2", "F6", "F1n")
UNSTABLE = ("F5", "F4", "F3", "F1k0")


def _spec_params(fam: str, r) -> dict:  # noqa: ANN001
    stiff = r.random() < 0.25  # widely separated time scales: the solver needs many internal steps per poll
    flip = [0]

    def tau() -> float:
        if stiff:
            flip[0] += 1
            return r.choice([0.05, 0.1]) if flip[0] % 2 else r.choice([200.0, 400.0])
        return r.choice([0.05, 0.1, 0.5, 1.0, 2.0, 5.0, 20.0, 50.0, 100.0, 200.0, 400.0])

    if fam == "F1":
        k = 1.0 / tau()
        return {"c": k * r.choice([0.5, 1.0, 2.0, 4.0]), "k": k}
    if fam == "F1n":
        k = 1.0 / tau()
        return {"c": k * r.choice([0.5, 1.0, 2.0]), "k": k, "n": r.choice([1.0, 2.0, 3.0])}
    if fam == "F2":
        k1, k2 = 1.0 / tau(), 1.0 / tau()
        return {"c": min(k1, k2) * r.choice([0.5, 1.0, 2.0]), "k1": k1, "k2": k2}
    if fam == "F6":
        k1, k2, k3 = 1.0 / tau(), 1.0 / tau(), 1.0 / tau()
        return {"c": min(k1, k2, k3) * r.choice([0.5, 1.0, 2.0]), "k1": k1, "k2": k2, "k3": k3}
    if fam == "F5":
        return {"c": r.choice([0.01, 1.0, 5.0])}
    if fam == "F4":
        return {"k": r.choice([0.01, 0.05, 0.25])}
    if fam == "F3":
        return {"a": r.choice([0.5, 2.0])}
    raise HarnessError(fam)


def gen_case(rng: SimRng, tier: str) -> dict:  # noqa: ARG001
    r = rng("case")
    fam = r.choice(["F1", "F1", "F2", "F6", "F5", "F4", "F3", "F1", "F1n", "F1n"])
    variables, _ = models.FAMILIES[fam]
    spec = {"family": fam, "params": _spec_params(fam, r), "y0": {n: r.choice([0.0, 0.5, 1.0, 3.0]) for n in variables}}
    if fam == "F4" and spec["y0"]["x"] == 0.0:
        spec["y0"]["x"] = 1.0
    ops = []
    for _ in range(r.randint(1, 3)):
        x = r.random()
        if x < 0.6:
            op = {
                "op": "sim_ss",
                "y0": None if r.random() < 0.5 else {n: r.choice([0.25, 1.0, 2.0, 6.0]) for n in variables},
                "tolerance": r.choice([1e-6, 1e-6, 1e-8, 1e-4]),
                "rel_norm": r.random() < 0.35,
                "fault": None,
            }
            if r.random() < 0.35:
                op["fault"] = {"kind": r.choice(["unsuccessful", "nan"]), "at_step": r.choice([0, 0, 1, 2, 3])}
            if r.random() < 0.3:
                # a successful segment precedes the search; sometimes it ends a hair before a multiple
                # of the search's own polling interval (100), while still in the transient
                op["pre_simulate"] = r.choice([0.5, 2.0, 10.0, 99.9999999, 99.9999999999986, 199.99999, 50.0])
            ops.append(op)
        elif x < 0.85 and fam in STABLE:
            # several searches on one simulator
            steps = [{"do": "ss", "tolerance": r.choice([1e-6, 1e-8]), "rel_norm": r.random() < 0.25}]
            pn = models.FAMILIES[fam][1]
            for _ in range(r.randint(2, 5)):
                y = r.random()
                if y < 0.4:
                    n = r.choice(pn)
                    steps.append({"do": "set", "items": [[n, spec["params"][n] * r.choice([0.25, 0.5, 2.0, 4.0])]]})
                    steps.append({"do": "ss", "tolerance": 1e-6, "rel_norm": False})
                elif y < 0.6:
                    steps.append({"do": "read"})
                elif y < 0.75:
                    steps.append({"do": "simulate", "dt": r.choice([1.0, 10.0, 50.0])})
                elif y < 0.82:
                    steps.append({"do": "clear"})
                else:
                    steps.append({"do": "ss", "tolerance": 1e-6, "rel_norm": r.random() < 0.25})
            ops.append({"op": "ss_history", "steps": steps})
        elif fam in ("F1", "F1n"):
            par = "k" if fam == "F1" or r.random() < 0.4 else "n"
            vals = [r.choice([0.5, 1.0, 2.0, 0.1]) for _ in range(r.randint(1, 4))]
            if par == "k" and r.random() < 0.7:
                vals.insert(r.randrange(len(vals) + 1), 0.0)  # k = 0: dx/dt = c, no steady state
            op = {"op": "scan_ss", "param": par, "values": vals, "rel_norm": r.random() < 0.3}
            if len(set(vals)) == len(vals) and len(vals) >= 2 and r.random() < 0.4:
                op["cache_prefill"] = sorted(r.sample(range(len(vals)), r.randint(1, len(vals) - 1)))
            elif len(vals) >= 2 and r.random() < 0.35:
                # row labels the user did not make unique (two tables concatenated): 0, 1, 0, 1
                op["labels"] = [j % max(1, len(vals) // 2) for j in range(len(vals))]
            if r.random() < 0.5:
                op["pre_evaluated"] = True  # the model was looked at before it was scanned
            ops.append(op)
        else:
            ops.append({"op": "sim_ss", "y0": None, "tolerance": 1e-6, "rel_norm": False, "fault": None})
    return {"spec": spec, "ops": ops}


class Exec:
    def __init__(self, prop: str, spec: dict, known: list[list[str]]) -> None:
        self.prop = prop
        self.spec = spec
        self.known = known
        self.trace = Trace()
        self.violations: list[dict] = []
        self.counters: Counter = Counter()
        self.i = -1
        self.sim_time = 0.0
        self.shape: set = set()
        self.stepper_seam = "?"

    def _viol(self, check: str, sig: list[str], detail: str) -> None:
        self.violations.append(violation(self.prop, check, sig, self.i, detail))

    def stop(self) -> bool:
        return any(not any(sig_matches(k, v["signature"]) for k in self.known) for v in self.violations)

    def _bound(self, xs: np.ndarray, tol: float, rel: bool) -> np.ndarray:
        return 1e-4 * (1.0 + np.abs(xs)) + 100.0 * tol * (np.abs(xs) if rel else 1.0)

    def step(self, i: int, op: dict) -> None:
        self.i = i
        if op["op"] == "sim_ss":
            self.sim_ss(op)
        elif op["op"] == "ss_history":
            self.ss_history(op)
        elif op["op"] == "scan_ss":
            self.scan_ss(op)
        else:
            raise HarnessError(op["op"])

    def sim_ss(self, op: dict) -> None:  # noqa: C901, PLR0912
        from mxlpy import Simulator
        from mxlpy.integrators import Scipy

        spec = self.spec
        fam = spec["family"]
        p = spec["params"]
        model = models.build_model(spec)
        fault = op.get("fault")
        plan = integrators.OdeFaultPlan(kind=fault["kind"], at_step=fault["at_step"]) if fault else integrators.OdeFaultPlan()
        self.stepper_seam = integrators.install_faulty_ode(plan)
        if fault and self.stepper_seam != "sim":
            self.counters["stepper_fault_runs_skipped_seam_unreachable"] += 1
            integrators.uninstall_faulty_ode()
            return
        exc = None
        res = None
        try:
            sim = Simulator(model, y0=dict(op["y0"]) if op.get("y0") else None, integrator=Scipy)
            if op.get("pre_simulate"):
                sim.simulate(op["pre_simulate"])
                plan.steps = 0
            res = sim.simulate_to_steady_state(tolerance=op["tolerance"], rel_norm=op["rel_norm"]).get_result()
        except Exception as e:  # noqa: BLE001
            exc = type(e).__name__
        finally:
            integrators.uninstall_faulty_ode()
        fired = plan.fired > 0
        self.counters["ode_steps"] += plan.steps
        self.sim_time += plan.steps * 100.0
        if fault:
            self.counters[f"fault_fired:{fault['kind']}" if fired else f"fault_configured_not_reached:{fault['kind']}"] += 1
        xs = models.steady_state(fam, p)
        cls = "stable" if xs is not None else "no_steady_state"
        self.shape.add(("sim_ss", cls, fault["kind"] if fault else "nofault", "rel" if op["rel_norm"] else "abs", "y0" if op.get("y0") else "default", "pre" if op.get("pre_simulate") else "fresh"))
        if exc is not None or isinstance(res.value, Exception):
            kind = exc or type(res.value).__name__
            self.trace.add("sim_ss", "failure", kind)
            self.counters[f"outcome:failure:{cls}"] += 1
            if xs is not None and not fired:
                tau = max(-1.0 / np.linalg.eigvals(models.matrix(fam, p)[0]).real)
                self.counters["probe:budget_exhausted_or_failed_on_stable_network"] += 1
                if tau <= 400.0:
                    self._viol("no_success_within_budget", ["no_success_within_budget", f"family:{fam}", "rel" if op["rel_norm"] else "abs"], f"stable network (slowest relaxation time {tau:.3g}) reported {kind} instead of its steady state")
            return
        simres = res.value
        var = simres.get_variables(include_derived_variables=False, include_readouts=False, include_surrogate_variables=False)
        names = models.FAMILIES[fam][0]
        x_rep = var.loc[:, names].iloc[-1].to_numpy(dtype=float)
        t_rep = float(var.index[-1])
        self.trace.add("sim_ss", "success", fnum(t_rep), [fnum(v) for v in x_rep])
        self.counters[f"outcome:success:{cls}"] += 1
        self.counters[f"polls_until_success:{min(int(t_rep // 100), 12)}"] += 1
        if fired:
            # a stepper fault fired during the search: only a state that really is steady may be presented
            if xs is None or not np.all(np.abs(x_rep - xs) <= self._bound(xs, op["tolerance"], op["rel_norm"])):
                self._viol("failure_reported_as_state", ["failure_reported_as_state", f"fault:{fault['kind']}"], f"stepper fault '{fault['kind']}' at poll {fault['at_step']} but a state {x_rep.tolist()} at t={t_rep} is presented as steady (analytic: {None if xs is None else xs.tolist()})")
            return
        if xs is None:
            self._viol("failure_reported_as_state", ["failure_reported_as_state", f"family:{fam}"], f"network without steady state ({fam} {p}) reported {x_rep.tolist()} at t={t_rep} as steady")
            return
        if not np.all(np.abs(x_rep - xs) <= self._bound(xs, op["tolerance"], op["rel_norm"])):
            self._viol("steady_not_steady", ["steady_not_steady", f"family:{fam}", "rel" if op["rel_norm"] else "abs"], f"reported steady state {x_rep.tolist()} at t={t_rep}, analytic {xs.tolist()} (tolerance {op['tolerance']})")
            return
        # reported fluxes balance
        fl = copy.deepcopy(simres).fluxes.iloc[-1]
        want = models.rates(fam, p, x_rep, t_rep)
        a, b = models.matrix(fam, p)
        resid = a @ x_rep + b
        vmax = max(abs(v) for v in want.values()) + 1.0
        bad = [n for n, w in want.items() if abs(float(fl[n]) - w) > 1e-9 * (1 + abs(w))]
        if bad or not np.all(np.abs(resid) <= 1e-3 * vmax):
            self._viol("fluxes_do_not_balance", ["fluxes_do_not_balance", f"family:{fam}"], f"reported fluxes {fl.to_dict()} at the reported state: residual {resid.tolist()}")

    def ss_history(self, op: dict) -> None:  # noqa: C901, PLR0912
        """Several steady-state searches on ONE simulator, with parameter changes, result reads
        and ordinary simulations in between: every reported success must be the steady state of
        the parameters in force at that moment; a search that cannot succeed must be a failure."""
        from mxlpy import Simulator
        from mxlpy.integrators import Scipy

        spec = self.spec
        fam = spec["family"]
        names = models.FAMILIES[fam][0]
        model = models.build_model(spec)
        p = dict(spec["params"])
        sim = Simulator(model, integrator=Scipy)
        dead = False
        self.shape.add(("ss_history", len(op["steps"])))
        for j, st in enumerate(op["steps"]):
            k = st["do"]
            try:
                if k == "set":
                    sim.update_parameters({a: float(b) for a, b in st["items"]})
                    p.update({a: float(b) for a, b in st["items"]})
                    self.trace.add("hist", "set", st["items"])
                    continue
                if k == "simulate":
                    if not dead:
                        cur = sim.variables[-1].index[-1] if sim.variables else 0.0
                        sim.simulate(float(cur) + float(st["dt"]))
                    self.trace.add("hist", "simulate", st["dt"])
                    continue
                if k == "read":
                    res = sim.get_result()
                    if not isinstance(res.value, Exception):
                        _ = res.value.variables
                        _ = res.value.fluxes
                    self.counters["history_result_reads"] += 1
                    self.trace.add("hist", "read")
                    continue
                if k == "clear":
                    sim.clear_results()
                    dead = False
                    self.trace.add("hist", "clear")
                    continue
                # k == "ss"
                sim.simulate_to_steady_state(tolerance=st.get("tolerance", 1e-6), rel_norm=bool(st.get("rel_norm")))
                res = sim.get_result()
            except Exception as e:  # noqa: BLE001
                self.trace.add("hist", k, "exc", type(e).__name__)
                dead = True
                continue
            self.counters["history_searches"] += 1
            xs = models.steady_state(fam, p)
            if isinstance(res.value, Exception):
                dead = True
                self.trace.add("hist", "ss", "failure", type(res.value).__name__)
                self.counters[f"outcome:failure:{'stable' if xs is not None else 'no_steady_state'}"] += 1
                continue
            if dead:
                continue
            simres = res.value
            raw = simres.get_variables(include_derived_variables=False, include_readouts=False, include_surrogate_variables=False)
            x_raw = raw.loc[:, names].iloc[-1].to_numpy(dtype=float)
            x_view = simres.variables.loc[:, names].iloc[-1].to_numpy(dtype=float)
            self.trace.add("hist", "ss", "success", [fnum(v) for v in x_raw])
            which = f"search:{'first' if self.counters['history_searches'] == 1 else 'later'}"
            if xs is None:
                self._viol("failure_reported_as_state", ["failure_reported_as_state", f"family:{fam}", "history", which], f"after {op['steps'][:j]} the network has no steady state but {x_raw.tolist()} is presented as steady")
                return
            bound = self._bound(xs, st.get("tolerance", 1e-6), bool(st.get("rel_norm")))
            for label, x in (("raw", x_raw), ("view", x_view)):
                if not np.all(np.abs(x - xs) <= bound):
                    self._viol("steady_not_steady", ["steady_not_steady", f"family:{fam}", "history", which, label], f"search {j} on a re-used simulator (history {op['steps'][: j + 1]}) reports {x.tolist()} ({label}), the steady state under the parameters in force {p} is {xs.tolist()}")
                    return
            fl = copy.deepcopy(simres).fluxes.iloc[-1]
            want = models.rates(fam, p, x_raw, 0.0)
            bad = [n for n, w in want.items() if abs(float(fl[n]) - w) > 1e-6 * (1 + abs(w))]
            if bad:
                self._viol("fluxes_do_not_balance", ["fluxes_do_not_balance", f"family:{fam}", "history"], f"reported fluxes {fl.to_dict()} are not the rate laws at the reported state {x_raw.tolist()} under {p}")
                return

    def scan_ss(self, op: dict) -> None:
        import pandas as pd
        from mxlpy import scan
        from mxlpy.integrators import Scipy

        spec = self.spec
        fam = spec["family"]
        model = models.build_model(spec)
        to_scan = pd.DataFrame({op["param"]: [float(v) for v in op["values"]]})
        if op.get("labels"):
            to_scan.index = pd.Index(list(op["labels"])[: len(to_scan)])
            self.counters["scan_with_non_unique_row_labels"] += 1
        if op.get("pre_evaluated"):
            model.get_right_hand_side()
            model.get_args()
        exc = None
        ck = {}
        cache_dir = None
        if op.get("cache_prefill") is not None:
            import os
            import shutil
            from pathlib import Path

            from mxlpy.parallel import Cache

            cache_dir = Path(os.environ.get("SIMKIT_SCRATCH") or "/tmp") / "sscache" / f"{os.getpid()}-{self.i}"  # noqa: S108
            shutil.rmtree(cache_dir, ignore_errors=True)
            ck = {"cache": Cache(tmp_dir=cache_dir)}
            pre = [j for j in op["cache_prefill"] if j < len(to_scan)]
            self.counters["scan_with_partly_filled_cache"] += 1
            try:
                if pre:
                    scan.steady_state(models.build_model(spec), to_scan=to_scan.iloc[pre], parallel=False, rel_norm=op["rel_norm"], integrator=Scipy, **ck)
            except Exception:  # noqa: BLE001
                ck = {}
        try:
            res = scan.steady_state(model, to_scan=to_scan, parallel=False, rel_norm=op["rel_norm"], integrator=Scipy, **ck)
            var = res.variables
        except Exception as e:  # noqa: BLE001
            exc = type(e).__name__
        self.shape.add(("scan_ss", len(op["values"]), 0.0 in op["values"]))
        if exc is not None:
            self.trace.add("scan_ss", "exc", exc)
            self._viol("scan_failed", ["scan_failed", exc], f"scan.steady_state over {op['param']}={op['values']} raised {exc}")
            return
        names = models.FAMILIES[fam][0]
        rows = var.loc[:, names].to_numpy(dtype=float)
        self.trace.add("scan_ss", [[fnum(v) for v in r] for r in rows])
        if len(rows) != len(op["values"]):
            self._viol("scan_rows_lost", ["scan_rows_lost"], f"{len(rows)} rows for {len(op['values'])} scanned values")
            return
        for j, v in enumerate(op["values"]):
            p = dict(spec["params"])
            p[op["param"]] = float(v)
            xs = models.steady_state(fam, p)
            row = rows[j]
            self.sim_time += 100.0
            if xs is None:
                self.counters["scan_rows_without_steady_state"] += 1
                if not np.all(np.isnan(row)):
                    self._viol("failure_reported_as_state", ["failure_reported_as_state", "scan_row", f"family:{fam}"], f"scan row {j} ({op['param']}={v}) has no steady state but reads {row.tolist()} instead of NaN")
                    return
            else:
                self.counters["scan_rows_with_steady_state"] += 1
                if np.any(np.isnan(row)):
                    tau = max(-1.0 / np.linalg.eigvals(models.matrix(fam, p)[0]).real)
                    if tau <= 400.0:
                        self._viol("no_success_within_budget", ["no_success_within_budget", "scan_row", f"family:{fam}"], f"scan row {j} ({op['param']}={v}) is NaN although the network is stable (relaxation time {tau:.3g})")
                        return
                elif not np.all(np.abs(row - xs) <= self._bound(xs, 1e-6, op["rel_norm"])):
                    self._viol("steady_not_steady", ["steady_not_steady", "scan_row", f"family:{fam}"], f"scan row {j} ({op['param']}={v}) reads {row.tolist()}, analytic {xs.tolist()}")
                    return


class SteadyMachine(Machine):
    name = "steady"
    properties = ("C15",)
    runs = {"quick": 6000, "thorough": 200000}
    run_timeout = 300.0
    rule = (
        "one run = one seeded family (stable F1/F2/F6 with relaxation times swept over 0.05..400, or F5/F4(k>0)/F3 without steady "
        "state) and 1-3 steady-state experiments on fresh simulators: Simulator.simulate_to_steady_state with default or user y0, "
        "absolute or relative norm, tolerance 1e-4..1e-8, optionally a stepper fault (failed step / non-finite output) injected at poll n "
        "through the scipy.integrate.ode seam; scan.steady_state over a parameter with rows that have no steady state (k=0). "
        "distinct = distinct set of (experiment kind, stable?, fault kind, norm, y0 kind) tuples + family; non-trivial = a fault fired, or a "
        "network without steady state / a scan with a failing row was searched"
    )
    real_components = ["mxlpy.integrators.Scipy.integrate_to_steady_state (polling loop, convergence norm)", "mxlpy.Simulator.simulate_to_steady_state/get_result", "mxlpy.scan.steady_state and its worker (sequential)", "scipy.integrate.ode (LSODA) underneath"]
    stub_components = ["scipy.integrate.ode.integrate/successful wrapped by FaultyOde in fault runs (delegates to the real stepper until the fault fires)"]
    assumptions = [
        "analytic steady state -A^-1 b from the family spec; accuracy bound 1e-4*(1+|x*|) + 100*tolerance",
        "the clause 'a reported success matches the analytic steady state' is plain seeded sampling of a pure function (no schedule or fault in it) and is reported as such",
        "liveness: success is demanded only for relaxation times <= 400 (budget 1000 polls x 100 time units)",
    ]

    def run_seed(self, seed: int, tier: str, known: list[list[str]]) -> RunResult:
        rng = SimRng(seed)
        case = gen_case(rng, tier)
        case["seed"] = seed
        return self.replay(case, known)

    def replay(self, case: dict, known: list[list[str]]) -> RunResult:
        ex = Exec(self.prop, case["spec"], known)
        for i, op in enumerate(case["ops"]):
            ex.step(i, op)
            if ex.stop():
                break
        fired = sum(v for k, v in ex.counters.items() if k.startswith("fault_fired"))
        nontrivial = fired > 0 or ex.counters.get("outcome:failure:no_steady_state", 0) > 0 or ex.counters.get("scan_rows_without_steady_state", 0) > 0 or any(k.startswith("outcome:success:no_steady") for k in ex.counters)
        ex.counters[f"stepper_seam:{ex.stepper_seam}"] += 1
        shape = digest_of([sorted(str(s) for s in ex.shape), case["spec"]["family"]])
        return RunResult(case=case, violations=ex.violations, digest=ex.trace.digest(), counters=ex.counters, shape=shape, nontrivial=nontrivial, sim_time=ex.sim_time, steps=ex.trace.n)

    def simplifications(self, case: dict):  # noqa: ANN201
        for i, op in enumerate(case["ops"]):
            if op.get("fault"):
                new = copy.deepcopy(case)
                new["ops"][i]["fault"] = None
                yield new
            if op.get("y0"):
                new = copy.deepcopy(case)
                new["ops"][i]["y0"] = None
                yield new
            if op.get("pre_simulate"):
                new = copy.deepcopy(case)
                new["ops"][i].pop("pre_simulate")
                yield new
            if op.get("rel_norm"):
                new = copy.deepcopy(case)
                new["ops"][i]["rel_norm"] = False
                yield new
            if op["op"] == "ss_history" and len(op["steps"]) > 1:
                for j in range(len(op["steps"])):
                    new = copy.deepcopy(case)
                    new["ops"][i]["steps"] = op["steps"][:j] + op["steps"][j + 1 :]
                    yield new
            if op["op"] == "scan_ss" and len(op["values"]) > 1:
                for j in range(len(op["values"])):
                    new = copy.deepcopy(case)
                    new["ops"][i]["values"] = op["values"][:j] + op["values"][j + 1 :]
                    yield new
