"""Fixed, importable, picklable function library: ops refer to functions by name."""

from __future__ import annotations


class SimInterrupt(KeyboardInterrupt):
    """The user interrupts a computation (Ctrl-C in a notebook)."""


class Tripper:
    """Interrupt seam at the model boundary: while armed, the k-th call of one of the model's
    evaluation methods (made by whatever library code is running) raises SimInterrupt instead
    of being carried out.  The rate functions themselves stay untouched (they are translated
    to SBML / source code elsewhere, so they must stay plain)."""

    # only the evaluations (where the time goes): an interrupt that lands inside the library's own
    # clean-up (the restoring update_parameters call in a finally block) cannot be defended against
    METHODS = ("get_args_time_course", "get_right_hand_side_time_course", "get_stoichiometries_of_variable")

    def __init__(self, model, k: int, methods: tuple[str, ...] | None = None) -> None:  # noqa: ANN001
        self.model = model
        self.left = int(k)
        self.fired = False
        if methods is not None:
            self.METHODS = tuple(methods)

    def __enter__(self):  # noqa: ANN204
        # (Model uses __slots__: the seam is installed on the class for the armed window and
        # only reacts to the one model instance it was armed for)
        cls = type(self.model)
        self._saved = {}
        for name in self.METHODS:
            real = cls.__dict__.get(name)
            if real is None:
                continue
            self._saved[name] = real

            def wrapper(inst, *a, __real=real, **kw):  # noqa: ANN001, ANN002, ANN003, ANN202
                if inst is self.model and not self.fired:
                    if self.left <= 0:
                        self.fired = True
                        raise SimInterrupt
                    self.left -= 1
                return __real(inst, *a, **kw)

            wrapper.__name__ = name
            setattr(cls, name, wrapper)
        return self

    def __exit__(self, *a):  # noqa: ANN002
        cls = type(self.model)
        for name, real in self._saved.items():
            setattr(cls, name, real)
        return False


def const(x):  # noqa: ANN001, ANN201
    return x


def neg(x):  # noqa: ANN001, ANN201
    return -x


def add(x, y):  # noqa: ANN001, ANN201
    return x + y


def sub(x, y):  # noqa: ANN001, ANN201
    return x - y


def mul(x, y):  # noqa: ANN001, ANN201
    return x * y


def div(x, y):  # noqa: ANN001, ANN201
    """Poisonable: raises ZeroDivisionError when y == 0 (also for numpy floats)."""
    if y == 0:
        raise ZeroDivisionError("poisoned: y == 0")
    return x / y


def ma1(s, k):  # noqa: ANN001, ANN201
    return k * s


def ma2(s1, s2, k):  # noqa: ANN001, ANN201
    return k * s1 * s2


def ma1_rev(s, p, kf, kr):  # noqa: ANN001, ANN201
    return kf * s - kr * p


def ramp(time, a):  # noqa: ANN001, ANN201
    return a * time


def one():  # noqa: ANN201
    return 1.0


def half(x):  # noqa: ANN001, ANN201
    return 0.5 * x


def square(x):  # noqa: ANN001, ANN201
    return x * x


def powerlaw1(x, k, g):  # noqa: ANN001, ANN201
    return k * x**g


def two_out(x, y):  # noqa: ANN001, ANN201
    return (x + y, x * y)


def two_out_div(x, y):  # noqa: ANN001, ANN201
    if y == 0:
        raise ZeroDivisionError("poisoned: y == 0")
    return (x / y, x - y)


def one_out(x):  # noqa: ANN001, ANN201
    return (2.0 * x,)


def dsum(d):  # noqa: ANN001, ANN201
    return float(d.sum())


def dscale(d, x):  # noqa: ANN001, ANN201
    return float(d.iloc[0]) * x


def cache_work(arg):  # noqa: ANN001, ANN201
    """Workload for the result cache: logs its invocation (append-only side channel outside
    the cache directory) and returns a deterministic payload of the requested size."""
    import os

    logpath, tag, size = arg
    fd = os.open(logpath, os.O_WRONLY | os.O_CREAT | os.O_APPEND, 0o644)
    try:
        os.write(fd, (repr(tag) + "\n").encode())
    finally:
        os.close(fd)
    blob = (repr(tag).encode() * (size // max(1, len(repr(tag))) + 1))[:size]
    return {"tag": tag, "blob": blob, "n": size}


FN = {
    f.__name__: f
    for f in [
        const, neg, add, sub, mul, div, ma1, ma2, ma1_rev, ramp, one, half, square,
        powerlaw1, two_out, two_out_div, one_out, dsum, dscale,
    ]
}

ARITY = {
    "const": 1, "neg": 1, "add": 2, "sub": 2, "mul": 2, "div": 2, "ma1": 2, "ma2": 3,
    "ma1_rev": 4, "ramp": 2, "one": 0, "half": 1, "square": 1, "powerlaw1": 3,
    "two_out": 2, "two_out_div": 2, "one_out": 1, "dsum": 1, "dscale": 2,
}

SCALAR_FNS = ["const", "neg", "add", "sub", "mul", "div", "ma1", "ma2", "half", "square", "one"]
SURROGATE_FNS = {"two_out": 2, "two_out_div": 2, "one_out": 1}  # name -> n outputs


def sleepy_square(arg):  # noqa: ANN001, ANN201
    """(x, seconds): used by the stub-fidelity self-test against the real pool only."""
    import time

    x, secs = arg
    if secs:
        time.sleep(secs)
    return x * x
