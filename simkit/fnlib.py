"""Fixed, importable, picklable function library: ops refer to functions by name."""

from __future__ import annotations


class SimInterrupt(KeyboardInterrupt):
    """The user interrupts a computation (Ctrl-C in a notebook): raised from inside a rate law."""


TRIP: list = [None]  # None = not armed; k = raise at the k-th rate-law evaluation from now


def _trip() -> None:
    if TRIP[0] <= 0:
        TRIP[0] = None
        raise SimInterrupt
    TRIP[0] -= 1


def const(x):  # noqa: ANN001, ANN201
    if TRIP[0] is not None:
        _trip()
    return x


def neg(x):  # noqa: ANN001, ANN201
    return -x


def add(x, y):  # noqa: ANN001, ANN201
    return x + y


def sub(x, y):  # noqa: ANN001, ANN201
    return x - y


def mul(x, y):  # noqa: ANN001, ANN201
    return x * y


def div(x, y):  # noqa: ANN001, ANN201
    """Poisonable: raises ZeroDivisionError when y == 0 (also for numpy floats)."""
    if y == 0:
        raise ZeroDivisionError("poisoned: y == 0")
    return x / y


def ma1(s, k):  # noqa: ANN001, ANN201
    if TRIP[0] is not None:
        _trip()
    return k * s


def ma2(s1, s2, k):  # noqa: ANN001, ANN201
    return k * s1 * s2


def ma1_rev(s, p, kf, kr):  # noqa: ANN001, ANN201
    if TRIP[0] is not None:
        _trip()
    return kf * s - kr * p


def ramp(time, a):  # noqa: ANN001, ANN201
    return a * time


def one():  # noqa: ANN201
    return 1.0


def half(x):  # noqa: ANN001, ANN201
    return 0.5 * x


def square(x):  # noqa: ANN001, ANN201
    return x * x


def powerlaw1(x, k, g):  # noqa: ANN001, ANN201
    return k * x**g


def two_out(x, y):  # noqa: ANN001, ANN201
    return (x + y, x * y)


def two_out_div(x, y):  # noqa: ANN001, ANN201
    if y == 0:
        raise ZeroDivisionError("poisoned: y == 0")
    return (x / y, x - y)


def one_out(x):  # noqa: ANN001, ANN201
    return (2.0 * x,)


def dsum(d):  # noqa: ANN001, ANN201
    return float(d.sum())


def dscale(d, x):  # noqa: ANN001, ANN201
    return float(d.iloc[0]) * x


def cache_work(arg):  # noqa: ANN001, ANN201
    """Workload for the result cache: logs its invocation (append-only side channel outside
    the cache directory) and returns a deterministic payload of the requested size."""
    import os

    logpath, tag, size = arg
    fd = os.open(logpath, os.O_WRONLY | os.O_CREAT | os.O_APPEND, 0o644)
    try:
        os.write(fd, (repr(tag) + "\n").encode())
    finally:
        os.close(fd)
    blob = (repr(tag).encode() * (size // max(1, len(repr(tag))) + 1))[:size]
    return {"tag": tag, "blob": blob, "n": size}


FN = {
    f.__name__: f
    for f in [
        const, neg, add, sub, mul, div, ma1, ma2, ma1_rev, ramp, one, half, square,
        powerlaw1, two_out, two_out_div, one_out, dsum, dscale,
    ]
}

ARITY = {
    "const": 1, "neg": 1, "add": 2, "sub": 2, "mul": 2, "div": 2, "ma1": 2, "ma2": 3,
    "ma1_rev": 4, "ramp": 2, "one": 0, "half": 1, "square": 1, "powerlaw1": 3,
    "two_out": 2, "two_out_div": 2, "one_out": 1, "dsum": 1, "dscale": 2,
}

SCALAR_FNS = ["const", "neg", "add", "sub", "mul", "div", "ma1", "ma2", "half", "square", "one"]
SURROGATE_FNS = {"two_out": 2, "two_out_div": 2, "one_out": 1}  # name -> n outputs


def sleepy_square(arg):  # noqa: ANN001, ANN201
    """(x, seconds): used by the stub-fidelity self-test against the real pool only."""
    import time

    x, secs = arg
    if secs:
        time.sleep(secs)
    return x * x
