"""Integrator seam: ExactLinear (exact time stepping over the repo's real rhs), Faulty
(content-keyed integration failures), FaultyOde (stepper-level faults for C15)."""

from __future__ import annotations

import copy

import numpy as np

from simkit.core import HarnessError


def _result(value):  # noqa: ANN001, ANN202
    from mxlpy.types import Result

    return Result(value)


class _NonFinite(Exception):
    """The right-hand side is not finite at the probe points: an integration failure."""


class ExactLinear:
    """Stub integrator: probes the REAL rhs (the Model it is given) for A and b, checks
    linearity and autonomy at a fixed probe point (else HarnessError), and returns the exact
    solution via the matrix exponential.  Keeps t0/y0 continuation state like Scipy does."""

    def __init__(self, rhs, y0, jacobian=None) -> None:  # noqa: ANN001, ARG002
        self.rhs = rhs
        self.y0 = tuple(float(v) for v in y0)
        self.t0 = 0.0
        self._y0_orig = self.y0
        self.calls = 0

    def reset(self) -> None:
        self.t0 = 0.0
        self.y0 = self._y0_orig

    def _ab(self) -> tuple[np.ndarray, np.ndarray]:
        n = len(self.y0)
        t = self.t0
        b = np.array(self.rhs(t, [0.0] * n), dtype=float)
        a = np.zeros((n, n))
        for j in range(n):
            e = [0.0] * n
            e[j] = 1.0
            a[:, j] = np.array(self.rhs(t, e), dtype=float) - b
        if not (np.all(np.isfinite(a)) and np.all(np.isfinite(b))):
            raise _NonFinite
        z = np.array([0.37 + 0.61 * j for j in range(n)])
        want = a @ z + b
        for tt in (t, t + 1.7):
            got = np.array(self.rhs(tt, list(z)), dtype=float)
            if not np.allclose(got, want, rtol=1e-9, atol=1e-12):
                raise HarnessError("ExactLinear used on a model that is not linear and autonomous")
        return a, b

    def _flow(self, a: np.ndarray, b: np.ndarray, y: np.ndarray, dt: float) -> np.ndarray:
        from scipy.linalg import expm

        n = len(b)
        m = np.zeros((n + 1, n + 1))
        m[:n, :n] = a
        m[:n, n] = b
        e = expm(m * dt)
        return e[:n, :n] @ y + e[:n, n]

    def integrate(self, *, t_end: float, steps: int | None = None):  # noqa: ANN201
        steps = 100 if steps is None else steps + 1
        return self.integrate_time_course(time_points=np.linspace(self.t0, t_end, steps, dtype=float))

    def integrate_time_course(self, *, time_points):  # noqa: ANN001, ANN201
        from mxlpy.integrators.abstract import TimeCourse

        self.calls += 1
        tp = np.array(time_points, dtype=float)
        if tp[0] != self.t0:
            tp = np.insert(tp, 0, self.t0)
        from mxlpy.types import IntegrationFailure

        try:
            a, b = self._ab()
            y0 = np.array(self.y0, dtype=float)
            with np.errstate(all="ignore"):
                vals = np.array([self._flow(a, b, y0, t - self.t0) for t in tp])
        except (_NonFinite, ValueError, OverflowError):
            return _result(IntegrationFailure())
        if not np.all(np.isfinite(vals)):
            return _result(IntegrationFailure())
        self.t0 = float(tp[-1])
        self.y0 = tuple(vals[-1])
        return _result(TimeCourse(time=tp, values=vals))

    def integrate_to_steady_state(self, *, tolerance: float, rel_norm: bool, step_size: int = 100, max_steps: int = 1000):  # noqa: ANN201
        """Continues from the state reached (t0, y0) and advances it on success."""
        from mxlpy.integrators.abstract import TimeCourse
        from mxlpy.types import NoSteadyState

        self.calls += 1
        try:
            a, b = self._ab()
        except _NonFinite:
            from mxlpy.types import IntegrationFailure

            return _result(IntegrationFailure())
        y1 = np.array(self.y0, dtype=float)
        t = self.t0
        for _ in range(max_steps):
            try:
                with np.errstate(all="ignore"):
                    y2 = self._flow(a, b, y1, step_size)
            except (ValueError, OverflowError):
                return _result(NoSteadyState())
            if not np.all(np.isfinite(y2)):
                return _result(NoSteadyState())
            t += step_size
            with np.errstate(all="ignore"):
                diff = (y2 - y1) / y1 if rel_norm else y2 - y1
            if np.linalg.norm(diff, ord=2) < tolerance:
                self.t0 = float(t)
                self.y0 = tuple(y2)
                return _result(TimeCourse(time=np.array([t], dtype=float), values=np.array([y2], dtype=float)))
            y1 = y2
        return _result(NoSteadyState())


class FaultyFactory:
    """IntegratorType: wraps an inner integrator type; integration FAILS whenever the model
    being integrated currently has a parameter value in `poison` (content-keyed, so 'row 3
    fails' means the same thing sequentially, in a pool, and in any completion order)."""

    def __init__(self, inner: str = "scipy", poison: tuple[float, ...] = (), mode: str = "fail", poison_all: tuple[float, ...] = ()) -> None:
        self.inner = inner
        self.poison = tuple(poison)
        self.mode = mode  # "fail": return an IntegrationFailure result; "raise": raise SimulatedSolverCrash
        self.poison_all = tuple(poison_all)  # fails only while ALL of these values are in force together

    def __call__(self, rhs, y0, jacobian=None):  # noqa: ANN001, ANN204
        return FaultyIntegrator(rhs, y0, jacobian, inner=self.inner, poison=self.poison, mode=self.mode, poison_all=self.poison_all)


def inner_type(name: str):  # noqa: ANN201
    if name == "scipy":
        from mxlpy.integrators import Scipy

        return Scipy
    if name.startswith("scipy:"):
        from functools import partial

        from mxlpy.integrators import Scipy

        return partial(Scipy, method=name.split(":", 1)[1])
    if name == "exact":
        return ExactLinear
    raise HarnessError(f"unknown integrator {name}")


class SimulatedSolverCrash(RuntimeError):
    """The solver itself blows up (not a ZeroDivisionError, not a failure value)."""


class FaultyIntegrator:
    def __init__(self, rhs, y0, jacobian=None, *, inner: str, poison: tuple[float, ...], mode: str = "fail", poison_all: tuple[float, ...] = ()) -> None:  # noqa: ANN001
        self.model = rhs
        self.poison = poison
        self.poison_all = poison_all
        self.mode = mode
        self.inner = inner_type(inner)(rhs, y0, jacobian)

    def _poisoned(self) -> bool:
        m = self.model
        if not hasattr(m, "get_parameter_values"):
            # after a variable override the simulator hands over partial(shifted_call, model, shift)
            m = next((a for a in getattr(m, "args", ()) if hasattr(a, "get_parameter_values")), None)
            if m is None:
                return False
        vals = [float(v) for v in m.get_parameter_values().values()]
        if self.poison_all and all(p in vals for p in self.poison_all):
            return True
        return any(v in self.poison for v in vals)

    def _fail(self):  # noqa: ANN202
        from mxlpy.types import IntegrationFailure

        if self.mode == "raise":
            raise SimulatedSolverCrash("injected solver crash")
        if self.mode == "interrupt":
            from simkit.fnlib import SimInterrupt

            raise SimInterrupt  # the user interrupts the (long) integration: a KeyboardInterrupt
        return _result(IntegrationFailure())

    def reset(self) -> None:
        self.inner.reset()

    @property
    def y0(self):  # noqa: ANN201
        return self.inner.y0

    @property
    def t0(self):  # noqa: ANN201
        return self.inner.t0

    def integrate(self, *, t_end, steps=None):  # noqa: ANN001, ANN201
        if self._poisoned():
            return self._fail()
        return self.inner.integrate(t_end=t_end, steps=steps)

    def integrate_time_course(self, *, time_points):  # noqa: ANN001, ANN201
        if self._poisoned():
            return self._fail()
        return self.inner.integrate_time_course(time_points=time_points)

    def integrate_to_steady_state(self, *, tolerance, rel_norm):  # noqa: ANN001, ANN201
        if self._poisoned():
            return self._fail()
        return self.inner.integrate_to_steady_state(tolerance=tolerance, rel_norm=rel_norm)


# --------------------------------------------------------------------------
# stepper-level faults (C15): wrap scipy.integrate.ode as seen by int_scipy
# --------------------------------------------------------------------------
class OdeFaultPlan:
    def __init__(self, kind: str = "none", at_step: int = 0) -> None:
        self.kind = kind  # none | unsuccessful | nan | stall | interrupt
        self.at_step = at_step
        self.fired = 0
        self.steps = 0


ODE_PLAN = OdeFaultPlan()
_REAL_SPI = {}


def _make_faulty_ode(real_ode):  # noqa: ANN001, ANN202
    class FaultyOde(real_ode):  # type: ignore[misc, valid-type]
        def integrate(self, t, step=False, relax=False):  # noqa: ANN001, ANN202, FBT002
            plan = ODE_PLAN
            plan.steps += 1
            if plan.kind != "none" and plan.steps - 1 >= plan.at_step:
                plan.fired += 1
                if plan.kind == "interrupt":
                    from simkit.fnlib import SimInterrupt

                    plan.kind = "none"  # once
                    raise SimInterrupt  # Ctrl-C while the search is under way
                self._sim_failed = True
                if plan.kind == "nan":
                    self._y = np.full_like(np.asarray(self._y, dtype=float), np.nan)
                    return self._y
                # "unsuccessful": the stepper gives up; state stays where it was
                return self._y
            self._sim_failed = False
            return super().integrate(t, step, relax)

        def successful(self) -> bool:
            if getattr(self, "_sim_failed", False):
                return False
            return super().successful()

    return FaultyOde


class _SpiShim:
    def __init__(self, real, ode) -> None:  # noqa: ANN001
        self._real = real
        self.ode = ode

    def __getattr__(self, name):  # noqa: ANN001, ANN204
        return getattr(self._real, name)


def install_faulty_ode(plan: OdeFaultPlan) -> str:
    """Returns 'sim' if the seam was reachable, else 'unreachable' (fault runs are skipped)."""
    global ODE_PLAN
    ODE_PLAN = plan
    from mxlpy.integrators import int_scipy

    spi = getattr(int_scipy, "spi", None)
    if spi is None or not hasattr(spi, "ode"):
        return "unreachable"
    if isinstance(spi, _SpiShim):
        return "sim"
    _REAL_SPI["spi"] = spi
    int_scipy.spi = _SpiShim(spi, _make_faulty_ode(spi.ode))
    return "sim"


def uninstall_faulty_ode() -> None:
    global ODE_PLAN
    ODE_PLAN = OdeFaultPlan()
    if "spi" in _REAL_SPI:
        from mxlpy.integrators import int_scipy

        int_scipy.spi = _REAL_SPI.pop("spi")


def clone(x):  # noqa: ANN001, ANN201
    return copy.deepcopy(x)
