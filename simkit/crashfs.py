"""Crash seam for C19: kill points by traced line count, torn writes through a Path subclass.

Everything here runs inside a forked child that is about to die; the parent only reads
the child's exit status and a result pipe.
"""

from __future__ import annotations

import io
import os
import pathlib
import sys

from simkit.lockstep import in_task, yield_point

EXIT_KILLED = 77


class SimWorkerDeath(BaseException):
    """A single simulated worker dies in the middle of a write (not the whole process)."""


class KillPlan:
    """What dies where.  kind: none | line | byte.

    line: os._exit at the `at`-th traced line event (frames of files in `scope`).
    byte: the `file`-th file opened for writing below the cache dir is cut after `at` bytes;
          then the whole process dies (whole=True) or only the writing worker (whole=False).
    """

    def __init__(self, kind: str = "none", at: int = -1, file: int = 0, whole: bool = True, scope: str = "parallel") -> None:
        self.kind = kind
        self.at = at
        self.file = file
        self.whole = whole
        self.scope = scope
        self.lines = 0
        self.files_opened = 0
        self.bytes_by_file: list[int] = []
        self.fired = False


PLAN = KillPlan()


class TornWriter(io.RawIOBase):
    """Unbuffered writer forwarding to the real fd; dies after exactly `limit` bytes."""

    def __init__(self, path: str, index: int, exclusive: bool = False) -> None:
        super().__init__()
        flags = os.O_WRONLY | os.O_CREAT | (os.O_EXCL if exclusive else os.O_TRUNC)  # 'x' keeps its meaning
        self._fd = os.open(path, flags, 0o644)
        self._index = index
        self._n = 0
        PLAN.bytes_by_file.append(0)

    def writable(self) -> bool:
        return True

    def write(self, b) -> int:  # noqa: ANN001
        data = bytes(b)
        plan = PLAN
        if in_task() and self._fd >= 0:
            # lockstep pool: other workers (and the parent) may run between two chunks
            yield_point("write")
            if len(data) > 1:
                half = len(data) // 2
                os.write(self._fd, data[:half])
                self._n += half
                plan.bytes_by_file[self._index] = self._n
                data = data[half:]
                yield_point("write")
                os.write(self._fd, data)
                self._n += len(data)
                plan.bytes_by_file[self._index] = self._n
                return half + len(data)
        if self._fd < 0:  # the writing worker is already dead: nothing reaches the disk
            return len(data)
        if plan.kind == "byte" and plan.file == self._index and not plan.fired:
            room = plan.at - self._n
            if room < len(data):
                if room > 0:
                    os.write(self._fd, data[:room])
                plan.fired = True
                if plan.whole:
                    os._exit(EXIT_KILLED)
                os.close(self._fd)
                self._fd = -1
                raise SimWorkerDeath
        os.write(self._fd, data)
        self._n += len(data)
        plan.bytes_by_file[self._index] = self._n
        return len(data)

    def close(self) -> None:
        if self._fd >= 0:
            yield_point("close")
            os.close(self._fd)
            self._fd = -1
        super().close()

    def fileno(self) -> int:
        return self._fd


class CrashPath(pathlib.PosixPath):
    """A PosixPath whose files opened for binary writing are crash-capable.

    Anything the code does through APIs not intercepted here hits the real scratch
    directory unchanged (fewer kill points, never a false alarm).
    """

    def open(self, mode="r", buffering=-1, encoding=None, errors=None, newline=None):  # noqa: ANN001, ANN201
        if "b" in mode and ("w" in mode or "x" in mode) and "+" not in mode:
            yield_point("open_w")
            idx = PLAN.files_opened
            PLAN.files_opened += 1
            raw = TornWriter(os.fspath(self), idx, exclusive="x" in mode)
            if buffering == 0:
                return raw
            return io.BufferedWriter(raw, buffer_size=8192)
        yield_point("open_r")
        return super().open(mode, buffering, encoding, errors, newline)

    def exists(self, *a, **k):  # noqa: ANN002, ANN003, ANN201
        yield_point("exists")
        return super().exists(*a, **k)

    def replace(self, target):  # noqa: ANN001, ANN201
        yield_point("replace")
        out = super().replace(target)
        yield_point("replaced")
        return out

    def unlink(self, missing_ok=False):  # noqa: ANN001, ANN201
        yield_point("unlink")
        return super().unlink(missing_ok=missing_ok)


def _make_tracer(prefixes: tuple[str, ...]):  # noqa: ANN202
    plan = PLAN

    def local(frame, event, arg):  # noqa: ANN001, ANN202, ARG001
        if event == "line":
            if plan.kind == "line" and plan.lines == plan.at:
                os._exit(EXIT_KILLED)
            plan.lines += 1
        return local

    def glob(frame, event, arg):  # noqa: ANN001, ANN202, ARG001
        if frame.f_code.co_filename.startswith(prefixes):
            return local
        return None

    return glob


def arm(plan: KillPlan) -> None:
    """Install the plan in this (child) process."""
    global PLAN
    PLAN = plan
    import mxlpy

    root = os.path.dirname(mxlpy.__file__)
    if plan.scope == "parallel":
        prefixes = (os.path.join(root, "parallel.py"),)
    else:
        prefixes = (root + os.sep,)
    if getattr(plan, "trace_shutil", False):
        import shutil

        prefixes = (*prefixes, shutil.__file__)  # a copy that replaces a rename has kill points of its own
    sys.settrace(_make_tracer(prefixes))


_REAL_RENAME: dict = {}


def simulate_cross_device(cache_dir: str) -> None:
    """The cache directory lives on another file system than everything else: a rename INTO it
    from outside fails with EXDEV (as rename(2) does), renames inside it work."""
    import errno

    inside = os.path.realpath(cache_dir) + os.sep

    def guard(real):  # noqa: ANN001, ANN202
        def f(src, dst, *a, **k):  # noqa: ANN001, ANN002, ANN003, ANN202
            s_in = (os.path.realpath(os.fspath(src)) + os.sep).startswith(inside) or os.path.realpath(os.path.dirname(os.fspath(src))) + os.sep == inside
            d_in = os.path.realpath(os.path.dirname(os.fspath(dst))) + os.sep == inside
            if s_in != d_in:
                raise OSError(errno.EXDEV, "Invalid cross-device link (simulated)", os.fspath(src))
            return real(src, dst, *a, **k)

        return f

    if not _REAL_RENAME:
        _REAL_RENAME["rename"], _REAL_RENAME["replace"] = os.rename, os.replace
        os.rename, os.replace = guard(os.rename), guard(os.replace)


def disarm() -> None:
    sys.settrace(None)
