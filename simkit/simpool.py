"""SimPool: in-process stand-in for pebble.ProcessPool whose schedule the simulator owns.

Faithful to what the properties depend on (pebble 5.2.2 contract, read from its sources):
* the task payload (fn, args) is pickled at submission and unpickled for execution, the
  result is pickled back: every task sees its own copy, the parent's objects are never
  touched, un-picklable payloads fail as they would for real;
* W simulated workers; a seeded scheduler decides which idle worker takes the next queued
  task and each task's virtual duration, hence the completion order; tasks execute in
  completion order (virtual time advances discrete-event style);
* map().result() yields results in INPUT order and re-raises a task's exception at its own
  next(); iteration continues afterwards;
* optional fault: worker death for chosen task indices -> pebble.ProcessExpired at that
  task's next() (the task's side effects up to its death point are kept when the
  plan says so).
"""

from __future__ import annotations

import heapq
import pickle
import random
from dataclasses import dataclass, field


@dataclass
class PoolPlan:
    workers: int = 2
    seed: int = 0
    die_tasks: tuple[int, ...] = ()  # task indices (within each map call) whose worker dies before running
    die_after: tuple[int, ...] = ()  # task indices whose worker dies AFTER running (result lost)
    die_maps: tuple[int, ...] = ()  # the deaths above happen only in these map calls (empty = in every one)
    record: list = field(default_factory=list)  # one entry per map call
    virtual_time: float = 0.0
    maps: int = 0
    tasks: int = 0
    deaths: int = 0
    # lockstep back-end (simkit/lockstep.py): tasks genuinely in flight together
    lockstep: bool = False
    timeout_tasks: tuple[int, ...] = ()  # tasks that exceed the map's timeout (only if the caller passed one)
    kill_at_yield: int = -1  # whole-process death at this scheduler step
    yields: int = 0
    timed_out: list = field(default_factory=list)
    parent_only: bool = False  # the kill at `kill_at_yield` hits the parent alone (workers become orphans)
    parent_dead: bool = False
    adopt_orphans: bool = False  # this run overlaps with the orphans of an earlier one
    script: list | None = None  # explicit schedule: -1 = start the next queued task, i = advance task i (replay / shrinking)
    tparams: dict | None = None  # {task: [own steps, further steps of the rest]} for timeout tasks


CURRENT: PoolPlan | None = None
_REAL = {}


class _Expired(Exception):
    pass


def _process_expired():  # noqa: ANN202
    import pebble

    try:
        return pebble.ProcessExpired("simulated worker death", code=-9)
    except TypeError:
        return pebble.ProcessExpired("simulated worker death")


class SimMapResults:
    def __init__(self, outcomes: list[tuple[str, bytes | BaseException]]) -> None:
        self._it = iter(outcomes)

    def __iter__(self):  # noqa: ANN204
        return self

    def __next__(self):  # noqa: ANN204
        kind, payload = next(self._it)
        if kind == "ok":
            return pickle.loads(payload)  # noqa: S301
        raise payload

    next = __next__


class SimFuture:
    def __init__(self, value) -> None:  # noqa: ANN001
        self._value = value

    def result(self, timeout=None):  # noqa: ANN001, ANN201, ARG002
        if isinstance(self._value, tuple) and self._value and self._value[0] == "__exc__":
            raise self._value[1]
        return self._value

    def done(self) -> bool:
        return True

    def cancel(self) -> bool:
        return False

    def add_done_callback(self, fn) -> None:  # noqa: ANN001
        fn(self)


class SimPool:
    def __init__(self, max_workers=None, max_tasks=0, initializer=None, initargs=(), context=None):  # noqa: ANN001, ARG002
        plan = CURRENT
        if plan is None:
            plan = PoolPlan(workers=max_workers or 2)
        self.plan = plan
        self.workers = max(1, int(max_workers if max_workers is not None else plan.workers))
        self._closed = False
        self._active: list = []
        if initializer is not None:
            initializer(*initargs)

    # context manager ---------------------------------------------------
    def __enter__(self):  # noqa: ANN204
        return self

    def __exit__(self, *a):  # noqa: ANN002
        self.close()
        self.join()
        return False

    def close(self) -> None:
        self._closed = True

    def stop(self) -> None:
        self._closed = True

    def join(self, timeout=None) -> None:  # noqa: ANN001, ARG002
        if getattr(self.plan, "parent_dead", False):
            return  # nobody is left to wait for the workers
        for ls in self._active:
            ls.drain()
        self._active = []

    @property
    def active(self) -> bool:
        return not self._closed

    # scheduling ----------------------------------------------------------
    def _simulate(self, n: int) -> tuple[list[int], list[int], list[float]]:
        """Return (completion order, worker of each task, finish time of each task)."""
        plan = self.plan
        rng = random.Random((plan.seed * 1000003 + plan.maps * 7919 + n) & 0xFFFFFFFFFFFF)
        w = self.workers
        idle = list(range(w))
        running: list[tuple[float, int, int]] = []  # (finish time, task, worker)
        now = plan.virtual_time
        order: list[int] = []
        worker_of = [0] * n
        finish = [0.0] * n
        nxt = 0
        while nxt < n or running:
            while nxt < n and idle:
                wk = idle.pop(rng.randrange(len(idle)))
                dur = rng.choice([1, 1, 2, 3, 5, 8]) + rng.random() * 0.01
                heapq.heappush(running, (now + dur, nxt, wk))
                worker_of[nxt] = wk
                nxt += 1
            t, task, wk = heapq.heappop(running)
            now = t
            finish[task] = t
            order.append(task)
            idle.append(wk)
        plan.virtual_time = now
        return order, worker_of, finish

    def map(self, function, *iterables, chunksize=1, timeout=None):  # noqa: ANN001, ANN201, ARG002
        if self._closed:
            raise RuntimeError("The Pool is not active")
        plan = self.plan
        # payloads are pickled at submission
        payloads: list[bytes | BaseException] = []
        for args in zip(*iterables):
            try:
                payloads.append(pickle.dumps((function, args)))
            except Exception as e:  # noqa: BLE001
                payloads.append(e)
        n = len(payloads)
        if plan.lockstep:
            from simkit.lockstep import LockstepResults

            ls = LockstepResults(self, payloads, timeout, _process_expired)
            self._active.append(ls)
            plan.maps += 1
            plan.tasks += n
            return SimFuture(ls)
        order, worker_of, _ = self._simulate(n)
        outcomes: list = [None] * n
        for task in order:
            p = payloads[task]
            if isinstance(p, BaseException):
                outcomes[task] = ("exc", p)
                continue
            dying = not plan.die_maps or plan.maps in plan.die_maps
            if task in plan.die_tasks and dying:
                outcomes[task] = ("exc", _process_expired())
                plan.deaths += 1
                continue
            try:
                fn, args = pickle.loads(p)  # noqa: S301
                res = fn(*args)
                out = ("ok", pickle.dumps(res))
            except Exception as e:  # noqa: BLE001
                out = ("exc", e)
            except BaseException as e:  # noqa: BLE001
                if type(e).__name__ != "SimWorkerDeath":
                    raise
                out = ("exc", _process_expired())  # only the worker running this task died
            if task in plan.die_after and dying:
                out = ("exc", _process_expired())
                plan.deaths += 1
            outcomes[task] = out
        plan.record.append({"n": n, "W": self.workers, "completion_order": order, "worker_of": worker_of})
        plan.maps += 1
        plan.tasks += n
        results = SimMapResults(outcomes)
        return SimFuture(results)

    def schedule(self, function, args=(), kwargs=None, timeout=None):  # noqa: ANN001, ANN201, ARG002
        kwargs = kwargs or {}
        try:
            fn, a, k = pickle.loads(pickle.dumps((function, args, kwargs)))  # noqa: S301
            return SimFuture(pickle.loads(pickle.dumps(fn(*a, **k))))  # noqa: S301
        except Exception as e:  # noqa: BLE001
            return SimFuture(("__exc__", e))

    submit = schedule


def install(plan: PoolPlan) -> None:
    """Replace pebble.ProcessPool (and any alias reachable from mxlpy modules) by SimPool."""
    import multiprocessing
    import sys
    import types

    import pebble

    global CURRENT
    CURRENT = plan
    if "ProcessPool" not in _REAL:
        _REAL["ProcessPool"] = pebble.ProcessPool
        _REAL["cpu_count"] = multiprocessing.cpu_count
    real = _REAL["ProcessPool"]
    pebble.ProcessPool = SimPool
    for name, mod in list(sys.modules.items()):
        if name.startswith("mxlpy") and type(mod) is types.ModuleType:
            for attr, val in list(mod.__dict__.items()):
                if val is real:
                    setattr(mod, attr, SimPool)
    multiprocessing.cpu_count = lambda: plan.workers


def uninstall() -> None:
    import multiprocessing
    import sys
    import types

    import pebble

    global CURRENT
    CURRENT = None
    if "ProcessPool" in _REAL:
        pebble.ProcessPool = _REAL["ProcessPool"]
        multiprocessing.cpu_count = _REAL["cpu_count"]
        for name, mod in list(sys.modules.items()):
            if name.startswith("mxlpy") and type(mod) is types.ModuleType:
                for attr, val in list(mod.__dict__.items()):
                    if val is SimPool:
                        setattr(mod, attr, _REAL["ProcessPool"])


def pool_seam_status() -> str:
    """'sim' if mxlpy.parallel would construct a SimPool right now, else 'real'."""
    import mxlpy.parallel as mp

    peb = getattr(mp, "pebble", None)
    if peb is not None and getattr(peb, "ProcessPool", None) is SimPool:
        return "sim"
    if getattr(mp, "ProcessPool", None) is SimPool:
        return "sim"
    return "real"
