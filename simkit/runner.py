"""Runner: seeded exploration over forked workers, shrinking, replay files, evidence."""

from __future__ import annotations

import argparse
import concurrent.futures as cf
import json
import multiprocessing
import os
import shutil
import signal
import subprocess
import sys
import tempfile
import time
import traceback
from collections import Counter
from pathlib import Path

VERIF = Path(__file__).resolve().parent.parent
DEFAULT_SEED = {"quick": 20261002, "thorough": 20261003}


# --------------------------------------------------------------------------
# environment / re-exec
# --------------------------------------------------------------------------
def ensure_env(argv: list[str]) -> None:
    """Re-exec once with a pinned environment so that one seed is one execution."""
    if os.environ.get("SIMKIT_REEXEC") == "1":
        return
    env = dict(os.environ)
    src = env.get("VERIF_REPO_SRC", "/repo/src")
    env.update(
        SIMKIT_REEXEC="1",
        PYTHONHASHSEED=env.get("SIMKIT_HASHSEED", "0"),
        PYTHONDONTWRITEBYTECODE="1",
        PYTHONPATH=f"{src}:{VERIF}",
        OMP_NUM_THREADS="1",
        OPENBLAS_NUM_THREADS="1",
        MKL_NUM_THREADS="1",
        NUMEXPR_NUM_THREADS="1",
        MPLBACKEND="Agg",
        MXLPY_VERIF="1",
        PYTHONWARNINGS="ignore",
    )
    scratch = tempfile.mkdtemp(prefix="mxlpy-verif.")
    env["SIMKIT_SCRATCH"] = scratch
    env["HOME"] = scratch + "/home"
    os.makedirs(env["HOME"], exist_ok=True)
    env["TMPDIR"] = scratch
    # run as a child so that the scratch directory is removed whatever happens
    p = subprocess.Popen([sys.executable, "-P", str(VERIF / "run_check.py"), *argv], env=env)
    try:
        rc = p.wait()
    except KeyboardInterrupt:
        p.kill()
        rc = 2
    finally:
        shutil.rmtree(scratch, ignore_errors=True)
    if rc < 0:
        rc = 2
    sys.exit(rc)


def scratch_dir() -> Path:
    p = Path(os.environ.get("SIMKIT_SCRATCH") or tempfile.gettempdir())
    p.mkdir(parents=True, exist_ok=True)
    return p


# --------------------------------------------------------------------------
# known findings
# --------------------------------------------------------------------------
def load_known(prop: str) -> list[dict]:
    f = VERIF / "known_findings.json"
    if not f.exists():
        return []
    data = json.loads(f.read_text())
    return [e for e in data.get("findings", []) if e.get("property") == prop and e.get("status") == "open"]


# --------------------------------------------------------------------------
# worker side
# --------------------------------------------------------------------------
_MACHINE = None
_KNOWN_SIGS: list[list[str]] = []
_TIER = "quick"


class _RunTimeout(BaseException):
    """Per-run watchdog.  A BaseException, so that the machines' broad `except Exception`
    (they record the system's exceptions as outcomes) cannot swallow it."""


def _alarm(signum, frame):  # noqa: ANN001, ARG001
    raise _RunTimeout


def _run_one(seed: int, keep_case: bool) -> dict:
    """One seed = one execution.  Machines whose system under test keeps process-global state
    (isolate_runs) get a pristine forked child per seed, so that nothing one run leaves behind
    (module registries, memo tables) can reach the next - whichever worker it lands on."""
    m = _MACHINE
    if not getattr(m, "isolate_runs", False):
        return _run_one_here(seed, keep_case)
    import pickle

    r, w = os.pipe()
    pid = os.fork()
    if pid == 0:
        code = 0
        try:
            os.close(r)
            out = _run_one_here(seed, keep_case)
            with os.fdopen(w, "wb") as f:
                pickle.dump(out, f)
        except BaseException:  # noqa: BLE001
            code = 3
        finally:
            os._exit(code)
    os.close(w)
    with os.fdopen(r, "rb") as f:
        data = f.read()
    _, status = os.waitpid(pid, 0)
    if os.waitstatus_to_exitcode(status) != 0 or not data:
        return {"seed": seed, "harness_error": f"isolated run child exited with {os.waitstatus_to_exitcode(status)}"}
    return pickle.loads(data)  # noqa: S301


def _run_one_here(seed: int, keep_case: bool) -> dict:
    from simkit.core import HarnessError

    m = _MACHINE
    signal.signal(signal.SIGALRM, _alarm)
    signal.setitimer(signal.ITIMER_REAL, m.run_timeout)
    try:
        res = m.run_seed(seed, _TIER, _KNOWN_SIGS)
        out = res.slim(keep_case)
        out["harness_error"] = None
    except _RunTimeout:
        out = {"seed": seed, "harness_error": f"run timeout after {m.run_timeout}s"}
    except HarnessError as e:
        out = {"seed": seed, "harness_error": f"HarnessError: {e}\n{traceback.format_exc()}"}
    except Exception as e:  # noqa: BLE001
        out = {"seed": seed, "harness_error": f"{type(e).__name__}: {e}\n{traceback.format_exc()}"}
    finally:
        signal.setitimer(signal.ITIMER_REAL, 0)
    return out


def _run_chunk(items: list[tuple[int, int, bool]]) -> list[dict]:
    out = []
    for idx, seed, keep in items:
        r = _run_one(seed, keep)
        r["index"] = idx
        out.append(r)
    return out


# --------------------------------------------------------------------------
# main
# --------------------------------------------------------------------------
def build_parser() -> argparse.ArgumentParser:
    ap = argparse.ArgumentParser(prog="check")
    ap.add_argument("prop")
    ap.add_argument("--tier", default=os.environ.get("VERIF_TIER", "quick"), choices=["quick", "thorough"])
    ap.add_argument("--seed", type=int, default=None)
    ap.add_argument("--replay", default=None)
    ap.add_argument("--runs", type=int, default=None)
    ap.add_argument("--jobs", type=int, default=int(os.environ.get("VERIF_JOBS", "0")) or None)
    ap.add_argument("--budget", type=float, default=float(os.environ.get("VERIF_BUDGET_S", "0")) or None)
    ap.add_argument("--digests", default=None, help="write per-seed trace digests to this file (determinism self-test)")
    ap.add_argument("--no-evidence", action="store_true")
    ap.add_argument("--no-shrink", action="store_true")
    ap.add_argument("--evidence-dir", default=None)
    ap.add_argument("--max-min", type=int, default=12, help="minimise at most this many distinct signatures")
    ap.add_argument("--isolate", action="store_true", default=os.environ.get("VERIF_ISOLATE") == "1", help="run every seed in its own forked child (no state can leak from one run into the next)")
    return ap


def main(argv: list[str]) -> int:
    ensure_env(argv)
    args = build_parser().parse_args(argv)
    t_start = time.monotonic()

    import faulthandler

    faulthandler.enable()

    from simkit import seams
    from simkit.core import HarnessError, sig_key, sig_matches
    from simkit.machines import REGISTRY
    from simkit.rng import derive

    seams.install_quiet()
    prop = args.prop
    if prop not in REGISTRY:
        print(f"unknown or unclaimed property {prop}", file=sys.stderr)
        return 2
    machine = REGISTRY[prop](prop)
    if args.isolate:
        machine.isolate_runs = True
    tier = args.tier
    seed_env = os.environ.get("VERIF_SEED")
    base_seed = args.seed if args.seed is not None else (int(seed_env) if seed_env else DEFAULT_SEED[tier])
    known = load_known(prop)
    known_sigs = [k["signature"] for k in known]

    # ---------------- replay mode -------------------------------------
    if args.replay:
        rec = json.loads(Path(args.replay).read_text())
        machine.setup(tier)
        try:
            res = machine.replay(rec["case"], [])
        finally:
            machine.teardown()
        want = rec.get("expect", {}).get("signature")
        got = [v["signature"] for v in res.violations]
        hit = [g for g in got if want is None or g == want]
        print(f"replay digest={res.digest} violations={[sig_key(g) for g in got]}")
        if hit:
            for v in res.violations:
                if v["signature"] in hit:
                    print(f"  {sig_key(v['signature'])} at op {v['op_index']}: {v['detail']}")
            print(f"VIOLATION property={prop} replay={args.replay}")
            return 1
        print("not reproduced")
        return 0

    # ---------------- exploration -------------------------------------
    global _MACHINE, _KNOWN_SIGS, _TIER
    _MACHINE, _KNOWN_SIGS, _TIER = machine, known_sigs, tier
    machine.setup(tier)
    harness_errors: list[str] = []
    lines: list[str] = []
    known_lines: list[str] = []
    known_replayed = []
    try:
        # 1. open known findings: replay their minimised files first
        for k in known:
            f = VERIF / k["replay"]
            rec = json.loads(f.read_text())
            from simkit.core import replay_isolated

            res = replay_isolated(machine, rec["case"], [])
            rep = any(sig_matches(k["signature"], v["signature"]) for v in res.violations)
            known_replayed.append({"id": k.get("id"), "reproduced": rep})
            if rep:
                known_lines.append(f"KNOWN-FINDING: property={prop} {k['what']}")
            else:
                known_lines.append(f"note: known finding {k.get('id')} no longer reproduces from {k['replay']}")

        n_runs = args.runs if args.runs is not None else machine.runs[tier]
        jobs = args.jobs or min(16, os.cpu_count() or 1)
        budget = args.budget or getattr(machine, "budget", {}).get(tier) or {"quick": 150.0, "thorough": 3600.0}[tier]
        seeds = [derive(base_seed, prop, i) % (2**53) for i in range(n_runs)]
        keep_first = 3
        items = [(i, s, i < keep_first) for i, s in enumerate(seeds)]
        chunk = max(1, min(16, n_runs // (jobs * 8) or 1))
        chunks = [items[i : i + chunk] for i in range(0, len(items), chunk)]
        results: list[dict] = []
        t_explore = time.monotonic()
        ctx = multiprocessing.get_context("fork")
        if jobs == 1:
            for c in chunks:
                if time.monotonic() - t_explore > budget:
                    break
                results.extend(_run_chunk(c))
        else:
            ex = cf.ProcessPoolExecutor(max_workers=jobs, mp_context=ctx)
            try:
                pending: dict = {}
                it = iter(chunks)
                exhausted = False
                hard_deadline = t_explore + budget + machine.run_timeout * 3 + 60
                while True:
                    while not exhausted and len(pending) < jobs * 2 and time.monotonic() - t_explore < budget:
                        try:
                            c = next(it)
                        except StopIteration:
                            exhausted = True
                            break
                        pending[ex.submit(_run_chunk, c)] = c
                    if not pending:
                        break
                    done, _ = cf.wait(pending, timeout=5.0, return_when=cf.FIRST_COMPLETED)
                    for fut in done:
                        pending.pop(fut)
                        try:
                            results.extend(fut.result())
                        except Exception as e:  # noqa: BLE001
                            harness_errors.append(f"worker died: {type(e).__name__}: {e}")
                    if time.monotonic() > hard_deadline:
                        harness_errors.append("hard deadline: workers still busy; killing pool")
                        for p in list(getattr(ex, "_processes", {}).values()):
                            p.kill()
                        break
                    if time.monotonic() - t_explore >= budget:
                        exhausted = True
            finally:
                # never wait for workers that may hang inside C code
                procs = list(getattr(ex, "_processes", {}).values())
                ex.shutdown(wait=False, cancel_futures=True)
                if harness_errors and any("hard deadline" in e for e in harness_errors):
                    for p in procs:
                        p.kill()
        results.sort(key=lambda r: r["index"])
        explore_s = time.monotonic() - t_explore

        for r in results:
            if r.get("harness_error"):
                harness_errors.append(f"seed {r['seed']}: {r['harness_error']}")
        good = [r for r in results if not r.get("harness_error")]

        # 2. classify violations
        by_sig: dict[str, list[dict]] = {}
        known_hits: Counter = Counter()
        for r in good:
            for v in r["violations"]:
                if v["property"] != prop:
                    continue
                matched = next((k for k in known if sig_matches(k["signature"], v["signature"])), None)
                if matched is not None:
                    known_hits[matched.get("id", "?")] += 1
                    continue
                by_sig.setdefault(sig_key(v["signature"]), []).append({"run": r, "v": v})

        # 3. shrink, write replay files, verify in a fresh process
        replays_dir = VERIF / "replays"
        replays_dir.mkdir(exist_ok=True)
        for old in replays_dir.glob(f"{prop}-*.json"):  # the directory reflects the current run
            old.unlink()
        n_viol = 0
        from simkit.shrink import shrink

        for sk, hits in sorted(by_sig.items()):
            n_viol += 1
            if n_viol > args.max_min:
                lines.append(f"(further violation signatures not minimised: {sk})")
                continue
            hits.sort(key=lambda h: (len(h["run"]["case"].get("ops", [])), h["run"]["index"]))
            h = hits[0]
            case = h["run"]["case"]
            tests = 0
            if not args.no_shrink:
                try:
                    case, tests = shrink(machine, case, h["v"]["signature"], [], budget_s=45.0 if tier == "quick" else 120.0)
                except Exception as e:  # noqa: BLE001
                    harness_errors.append(f"shrink failed for {sk}: {type(e).__name__}: {e}")
            from simkit.core import replay_isolated

            res = replay_isolated(machine, case, [])
            vv = next((v for v in res.violations if sig_key(v["signature"]) == sk), h["v"])
            from simkit.core import digest_of

            path = replays_dir / f"{prop}-{h['run']['seed']}-{digest_of(sk)[:8]}.json"
            rec = {
                "property": prop,
                "machine": machine.name,
                "seed": h["run"]["seed"],
                "base_seed": base_seed,
                "tier": tier,
                "case": case,
                "shrink_tests": tests,
                "original_ops": len(h["run"]["case"].get("ops", [])),
                "expect": {"check": vv["check"], "signature": vv["signature"], "op_index": vv["op_index"], "detail": vv["detail"]},
            }
            path.write_text(json.dumps(rec, indent=1, default=str))
            confirmed = ""
            if n_viol <= 3:
                env = {k: v for k, v in os.environ.items() if not k.startswith("SIMKIT_")}
                env.pop("PYTHONPATH", None)
                pr = subprocess.run([str(VERIF / "check"), prop, "--replay", str(path)], capture_output=True, text=True, env=env, timeout=600, check=False)
                confirmed = " (replayed in a fresh process: reproduced)" if pr.returncode == 1 else f" (fresh-process replay exit {pr.returncode}: NOT reproduced)"
                if pr.returncode != 1:
                    harness_errors.append(f"replay of {path} did not reproduce: {pr.stdout[-300:]}")
            lines.append(f"violation {sk} x{len(hits)} first op_index={vv['op_index']}: {vv['detail']}{confirmed}")
            lines.append(f"VIOLATION property={prop} replay={path}")

        wall = time.monotonic() - t_start

        # 4. evidence
        counters: Counter = Counter()
        shapes = set()
        sim_time = 0.0
        steps = 0
        for r in good:
            counters.update(r["counters"])
            if r["nontrivial"]:
                shapes.add(r["shape"])
            sim_time += r["sim_time"]
            steps += r["steps"]
        samples = [r["case"] for r in good[:keep_first] if r.get("case")]
        rate_h = len(good) / explore_s * 3600 if explore_s > 0 else 0.0
        evidence = {
            "property_id": prop,
            "tier": tier,
            "seed": base_seed,
            "level": machine.level,
            "wall_s": round(wall, 2),
            "violations": n_viol,
            "coverage": {
                "evaluations": len(good),
                "distinct_nontrivial": len(shapes),
                "rule": machine.rule,
                "samples": samples[:2],
                "requested_runs": n_runs,
                "ops_executed": steps,
                "runs_per_hour": round(rate_h),
                "seeds_per_hour": round(rate_h),
                "simulated_time_covered": round(sim_time, 3),
                "fault_and_probe_counters": dict(sorted(counters.items())),
                "known_findings_replayed": known_replayed,
                "known_finding_hits_during_search": dict(known_hits),
                "jobs": jobs,
                "every_seed_in_its_own_forked_child": bool(getattr(machine, "isolate_runs", False)),
                "explore_wall_s": round(explore_s, 2),
                "machine": machine.name,
                "real_components": machine.real_components,
                "stub_components": machine.stub_components,
                "harness_errors": len(harness_errors),
                **machine.extra_evidence(tier),
            },
            "assumptions": machine.assumptions,
        }
        if not args.no_evidence:
            ed = Path(args.evidence_dir) if args.evidence_dir else VERIF / "evidence"
            ed.mkdir(exist_ok=True)
            (ed / f"{prop}.json").write_text(json.dumps(evidence, indent=1, default=str))
        if args.digests:
            Path(args.digests).write_text(json.dumps({str(r["seed"]): r.get("digest") for r in results}, indent=0, sort_keys=True))
    finally:
        machine.teardown()

    for ln in known_lines:
        print(ln)
    for ln in lines:
        print(ln)
    under = machine.under_reach(counters, tier) if hasattr(machine, "under_reach") else []
    for u in under:
        print(f"note: under-reach: {u}")
    print(
        f"{prop} [{machine.name}] tier={tier} seed={base_seed} runs={len(good)}/{n_runs} ops={steps} "
        f"distinct_nontrivial={len(shapes)} violations={n_viol} known_hits={sum(known_hits.values())} "
        f"harness_errors={len(harness_errors)} wall={wall:.1f}s rate={rate_h:.0f} runs/h"
    )
    if harness_errors:
        for e in harness_errors[:5]:
            print("HARNESS-ERROR:", e, file=sys.stderr)
        return 1 if n_viol else 2
    return 1 if n_viol else 0
