"""simkit: deterministic simulation with fault injection for MxlPy (see /verif/DESIGN.md)."""
