"""ddmin over op lists + machine-specific simplifications, budget-capped."""

from __future__ import annotations

import copy
import time

from simkit.core import replay_isolated, sig_key


def _reproduces(machine, case: dict, target: str, known) -> bool:  # noqa: ANN001
    try:
        res = replay_isolated(machine, case, known)
    except Exception:  # noqa: BLE001  (a candidate that breaks the harness is rejected)
        return False
    return any(sig_key(v["signature"]) == target for v in res.violations)


def shrink(machine, case: dict, target_sig: list[str], known, budget_s: float = 60.0, max_tests: int = 1500) -> tuple[dict, int]:  # noqa: ANN001
    """Return (smaller case, number of candidate executions)."""
    target = sig_key(target_sig)
    deadline = time.monotonic() + budget_s
    tests = 0
    best = copy.deepcopy(case)

    def ok(c: dict) -> bool:
        nonlocal tests
        tests += 1
        return _reproduces(machine, c, target, known)

    def out_of_budget() -> bool:
        return time.monotonic() > deadline or tests >= max_tests

    # ---- ddmin over ops ------------------------------------------------
    if isinstance(best.get("ops"), list):
        ops = best["ops"]
        n = 2
        while len(ops) >= 2 and not out_of_budget():
            chunk = max(1, len(ops) // n)
            reduced = False
            # try removing each chunk (complement testing)
            i = 0
            while i < len(ops) and not out_of_budget():
                cand_ops = ops[:i] + ops[i + chunk :]
                if cand_ops != ops and len(cand_ops) >= 1:
                    cand = dict(best, ops=cand_ops)
                    if ok(cand):
                        ops = cand_ops
                        best = cand
                        reduced = True
                        n = max(n - 1, 2)
                        continue
                i += chunk
            if not reduced:
                if chunk == 1:
                    break
                n = min(len(ops), n * 2)
        best["ops"] = ops

    # ---- machine-specific simplifications (to fixpoint) -----------------
    progress = True
    while progress and not out_of_budget():
        progress = False
        for cand in machine.simplifications(best):
            if out_of_budget():
                break
            if ok(cand):
                best = copy.deepcopy(cand)
                progress = True
                break
    return best, tests
