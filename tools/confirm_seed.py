#!/usr/bin/env python3
"""Confirm an independently written seeded change in its scratch worktree, then keep it:
demo passes on the clean tree, fails with the patch; pinned suite still passes with the patch.
usage: confirm_seed.py <worktree> <i> <seed-id>      -> /verif/seeded/<seed-id>/
"""
import json
import os
import shutil
import subprocess
import sys
from pathlib import Path

wt, i, sid = Path(sys.argv[1]), sys.argv[2], sys.argv[3]
out = wt / "OUT" / i
env = dict(os.environ, PYTHONPATH=str(wt / "src"), OMP_NUM_THREADS="1", HOME=str(wt / "OUT" / "home"))
os.makedirs(env["HOME"], exist_ok=True)


def sh(*c, **k):
    return subprocess.run(list(c), capture_output=True, text=True, check=False, **k)


def demo():
    return sh("/venv/bin/python", str(out / "demo.py"), env=env, cwd=str(out), timeout=900).returncode


assert not sh("git", "-C", str(wt), "status", "--porcelain", "--untracked-files=no").stdout.strip(), "worktree dirty"
ran = {}
ran["demo_clean_exit"] = demo()
ap = sh("git", "-C", str(wt), "apply", str(out / "patch.diff"))
assert ap.returncode == 0, ap.stderr
try:
    ran["demo_patched_exit"] = demo()
    b = sh("python3", str(Path(__file__).parent / "baseline_check.py"), str(wt), "-n", "8", timeout=3600)
    ran["baseline_patched"] = b.stdout.strip().splitlines()[0] if b.stdout.strip() else b.stderr[-200:]
    ran["baseline_exit"] = b.returncode
finally:
    sh("git", "-C", str(wt), "checkout", "--", ".")
ok = ran["demo_clean_exit"] == 0 and ran["demo_patched_exit"] != 0 and ran["baseline_exit"] == 0
print(sid, "CONFIRMED" if ok else "REJECTED", ran)
if ok:
    dst = Path("/verif/seeded") / sid
    dst.mkdir(parents=True, exist_ok=True)
    shutil.copy(out / "patch.diff", dst / "patch.diff")
    shutil.copy(out / "demo.py", dst / "demo.py")
    meta = json.loads((out / "meta.json").read_text())
    meta["confirmed"] = ran
    meta["what_i_ran"] = "in the author's scratch worktree: demo on clean tree (exit 0), git apply patch, demo (exit != 0), tools/baseline_check.py -n 8 (all 1378 stable tests pass), git checkout"
    (dst / "meta.json").write_text(json.dumps(meta, indent=1))
sys.exit(0 if ok else 1)
