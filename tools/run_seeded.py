#!/usr/bin/env python3
"""Run the owning check against every kept seeded change: apply the patch to /repo
(git apply), run ./check <prop> --tier quick, undo (git checkout -- .).  /repo must be clean.

usage: run_seeded.py [--only ID[,ID]] [--tier quick] [--runs N]
Writes seeded/results.json.  Exit 0 iff every seeded change was detected.
"""
from __future__ import annotations

import argparse
import json
import subprocess
import sys
import time
from pathlib import Path

VERIF = Path(__file__).resolve().parent.parent


def sh(*cmd: str, **kw) -> subprocess.CompletedProcess:  # noqa: ANN003
    return subprocess.run(list(cmd), capture_output=True, text=True, check=False, **kw)


def main() -> int:
    ap = argparse.ArgumentParser()
    ap.add_argument("--only", default=None)
    ap.add_argument("--tier", default="quick")
    ap.add_argument("--runs", default=None)
    args = ap.parse_args()
    if sh("git", "-C", "/repo", "status", "--porcelain").stdout.strip():
        print("/repo is not clean; refusing")
        return 2
    dirs = sorted(d for d in (VERIF / "seeded").iterdir() if (d / "patch.diff").exists())
    if args.only:
        ids = set(args.only.split(","))
        dirs = [d for d in dirs if d.name in ids]
    results = []
    for d in dirs:
        meta = json.loads((d / "meta.json").read_text())
        prop = meta["property"]
        if meta.get("out_of_scope"):
            print(f"{d.name}: outside what the property states, skipped")
            results.append({"id": d.name, "property": prop, "status": "out_of_scope", "why": meta["out_of_scope"]})
            continue
        if meta.get("obsolete"):
            print(f"{d.name}: obsolete (no longer a defect on this tree), skipped")
            results.append({"id": d.name, "property": prop, "status": "obsolete_after_fix", "why": meta["obsolete"]})
            continue
        ap_ = sh("git", "-C", "/repo", "apply", str(d / "patch.diff"))
        if ap_.returncode != 0:
            print(f"{d.name}: patch does not apply: {ap_.stderr[:200]}")
            results.append({"id": d.name, "property": prop, "status": "patch_does_not_apply"})
            continue
        try:
            cmd = [str(VERIF / "check"), prop, "--tier", args.tier, "--no-evidence", "--max-min", "3"]
            if args.runs:
                cmd += ["--runs", args.runs]
            t0 = time.time()
            p = sh(*cmd, timeout=7200)
            dt = time.time() - t0
        finally:
            sh("git", "-C", "/repo", "checkout", "--", ".")
            sh("git", "-C", "/repo", "clean", "-fdq", "src")
        sigs = [ln.split()[1] for ln in p.stdout.splitlines() if ln.startswith("violation ")]
        status = "detected" if p.returncode == 1 and "VIOLATION" in p.stdout else ("harness_error" if p.returncode == 2 else "MISSED")
        print(f"{d.name} [{prop}] {status} in {dt:.0f}s sigs={sigs[:3]}")
        if status == "harness_error":
            print(p.stderr[-800:])
        results.append({"id": d.name, "property": prop, "status": status, "tier": args.tier, "signatures": sigs[:6], "wall_s": round(dt, 1)})
    out = VERIF / "seeded" / "results.json"
    prev = {r["id"]: r for r in json.loads(out.read_text())} if out.exists() else {}
    for r in results:
        prev[r["id"]] = r
    out.write_text(json.dumps(sorted(prev.values(), key=lambda r: r["id"]), indent=1))
    missed = [r for r in results if r["status"] not in ("detected", "obsolete_after_fix", "out_of_scope")]
    print(f"{len(results) - len(missed)}/{len(results)} detected")
    return 1 if missed else 0


if __name__ == "__main__":
    sys.exit(main())
