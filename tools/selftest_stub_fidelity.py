#!/usr/bin/env python3
"""Stub-fidelity self-test (not a property check): the same scans under the REAL
pebble.ProcessPool and under SimPool must give identical results on the unchanged tree;
ExactLinear must agree with real Scipy on the closed-form families."""
import os
import sys
from pathlib import Path

VERIF = Path(__file__).resolve().parent.parent
if os.environ.get("SIMKIT_REEXEC") != "1":
    env = dict(os.environ, SIMKIT_REEXEC="1", PYTHONHASHSEED="0", PYTHONPATH=f"{os.environ.get('VERIF_REPO_SRC', '/repo/src')}:{VERIF}",
               OMP_NUM_THREADS="1", OPENBLAS_NUM_THREADS="1", MKL_NUM_THREADS="1", PYTHONWARNINGS="ignore")
    os.execve("/venv/bin/python", ["/venv/bin/python", "-P", __file__], env)

import numpy as np
import pandas as pd

from simkit import integrators, models, seams, simpool
from simkit.core import diff_values

seams.install_quiet()
from mxlpy import Simulator, mc, scan
from mxlpy.integrators import Scipy

bad = 0
tab = pd.DataFrame({"k1": [0.5, 1.0, 2.0, 3.0, 0.25], "x": [1.0, 2.0, 0.5, 1.5, 3.0]}, index=["a", "b", "c", "d", "e"])
tp = np.array([0.0, 0.5, 2.0])
for name, fn in [
    ("scan.time_course", lambda: scan.time_course(models.scan_model("S1"), to_scan=tab, time_points=tp, parallel=True)),
    ("scan.steady_state", lambda: scan.steady_state(models.scan_model("S1"), to_scan=tab, parallel=True)),
    ("mc.time_course", lambda: mc.time_course(models.scan_model("S2"), time_points=tp, mc_to_scan=tab.rename(columns={"k1": "kf"}), max_workers=3)),
]:
    real = fn()
    rv, rf = real.variables, real.fluxes
    for w, seed in [(1, 1), (3, 2), (16, 3)]:
        simpool.install(simpool.PoolPlan(workers=w, seed=seed))
        try:
            sim = fn()
        finally:
            simpool.uninstall()
        for view, a in (("variables", rv), ("fluxes", rf)):
            d = diff_values(a, getattr(sim, view), rtol=1e-12)
            if d is not None:
                bad += 1
                print(f"MISMATCH {name} W={w} {view}: {d}")
    print(f"{name}: real pebble == SimPool for W in (1, 3, 16)")

# timeout semantics: real pebble vs the lockstep back-end (TimeoutError at the slow task's own
# next(), iteration continues, the other results are unaffected, the key is simply missing)
from simkit.fnlib import sleepy_square
from mxlpy.parallel import parallelise

inputs = [(i, (i, 30.0 if i == 1 else 0.0)) for i in range(4)]
real = parallelise(sleepy_square, inputs, parallel=True, max_workers=2, timeout=1.0, disable_tqdm=True)
plan = simpool.PoolPlan(workers=2, seed=5)
plan.lockstep = True
plan.timeout_tasks = (1,)
simpool.install(plan)
try:
    sim = parallelise(sleepy_square, [(i, (i, 0.0)) for i in range(4)], parallel=True, max_workers=2, timeout=1.0, disable_tqdm=True)
finally:
    simpool.uninstall()
if real != sim or [k for k, _ in real] != [0, 2, 3]:
    bad += 1
    print(f"MISMATCH timeout semantics: real={real} lockstep={sim}")
else:
    print("parallelise(timeout=): real pebble == lockstep SimPool (slow task's key missing, rest intact)")

for fam in ("F1", "F2", "F2r", "F4", "F5", "F6"):
    spec = {"family": fam, "params": {p: 0.5 for p in models.FAMILIES[fam][1]}, "y0": {v: 1.0 + i for i, v in enumerate(models.FAMILIES[fam][0])}}
    if fam == "F4":
        spec["params"]["k"] = -0.5
    outs = []
    for integ in (Scipy, integrators.ExactLinear):
        s = Simulator(models.build_model(spec), integrator=integ)
        s.simulate(2.0, steps=4).update_variable(models.FAMILIES[fam][0][0], 2.5).simulate_time_course(np.array([2.5, 3.0, 6.0]))
        outs.append(s.get_result().unwrap_or_err().get_variables(include_derived_variables=False, include_readouts=False, include_surrogate_variables=False))
    if list(outs[0].index) != list(outs[1].index) or not np.allclose(outs[0].to_numpy(), outs[1].to_numpy(), rtol=2e-5, atol=2e-5):
        bad += 1
        print(f"MISMATCH ExactLinear vs Scipy on {fam}")
    else:
        print(f"{fam}: ExactLinear == Scipy to integrator tolerance")
print("stub fidelity:", "OK" if not bad else f"{bad} mismatches")
sys.exit(1 if bad else 0)
