#!/usr/bin/env python3
"""Regenerate MANIFEST.json from the table below (kept in one place)."""
import json
import subprocess
from pathlib import Path

VERIF = Path(__file__).resolve().parent.parent

NA = {
    "C01": "pure function of (model content, state, time): no schedule, clock, fault or history in the statement; its stateful shadow (answers independent of earlier queries/edits) is decided under C03",
    "C02": "pure function of the declared dependency graph (inputs x declaration orders): deciding it is enumeration/input generation, not simulation",
    "C05": "pure construction of a labelled model from (base model, label counts, maps): no interleaving, clock, I/O or fault",
    "C06": "pure source-to-expression translation quantified over programs and inputs only",
    "C07": "pure model-to-source translation into four languages; no interleaving or fault in the statement",
    "C08": "pure write/read translation; the file in between is not subjected to faults by the statement (session-state shadow is exercised under C17)",
    "C11": "pure model -> source -> model translation",
    "C12": "pure symbolic/numeric equivalence over models, states and integrator methods",
    "C13": "pure classification (static vs dynamic) and evaluation at supplied states",
    "C16": "pure algebraic identity between two constructed models",
}

CHECKS = {
    "C03": dict(
        engine="edits", category="exploration", design_ref="DESIGN.md §4.1",
        technique="deterministic simulation: seeded edit/query/rejection/poison histories on one Model, refinement against a model freshly rebuilt from its own content after every op; ddmin-minimised replay files",
        text="Seeded search over histories of public Model edits (all single and batch mutators, ~25% deliberately rejected, poisoned functions that kill a query while the memo is being built, dangling/cyclic content) interleaved with queries; after every op the edited model must refine a model freshly rebuilt from its own content (same op outcome, same content, same ids, same query answers), a refused edit must change nothing, names must stay disjoint and re-usable. Sampling, not proof; ~2M histories/hour. Added later: a quarter of the runs hand the model EPHEMERAL function objects (a new function object per use that only the model refers to), so that anything remembered by id() across edits goes stale; caller-kept Parameter/Variable containers; the caller scribbles on dicts that queries return. One hand-written postcondition on top of the refinement: an accepted remove leaves none of its names behind, an accepted add all of them in place (a refinement against an equally built twin cannot see an accepted edit that did nothing); one-shot iterables for the remover declared Iterable[str].",
        note="Trusted: rebuild through public add_* from get_raw_* copies is 'a freshly built model with the same content'; Model._data read directly (no public getter). Cannot see wrong evaluation that a fresh model shares (C01/C02/C13).",
    ),
    "C04": dict(
        engine="simtime", category="exploration", design_ref="DESIGN.md §4.2",
        technique="deterministic simulation: seeded call histories (legal and deliberately illegal continuations, overrides, parameter changes, steady-state runs, clears) on one Simulator in dyadic model time, checked op by op against a reference model (T, y, params) with closed-form piecewise solutions; integrator seam (real Scipy / exact stub)",
        text="Seeded search over histories of simulate / time-course / protocol calls interleaved with parameter updates, variable overrides, steady-state runs, clear_results and get_result on ONE Simulator over closed-form families (incl. a non-autonomous one that distinguishes absolute from integrator-relative time). After every op: refusal iff requested end <= time reached, strictly increasing absolute axis, every requested later point exactly once, history never rewritten, states equal the closed-form solution from the previous segment's final state (override applied) under the parameters in force, recorded segment parameters right. Added later: faults in which the solver itself raises (also in a later protocol step) and the caller goes on with the same simulator; the very first run failing and recovery by clear; view reads between segments, also interrupted half-way (KeyboardInterrupt at the k-th model evaluation); very short stretches at large clocks framed by overrides; a family whose stoichiometric coefficient is computed from a parameter.",
        note="Closed-form oracle (matrix exponential from the family spec). Real Scipy runs judged at 2e-5*(1+|x|), ExactLinear stub runs at 1e-9. After an integration failure nothing is demanded until clear_results. Whether a reported steady state is steady is C15's question, not charged here.",
    ),
    "C09": dict(
        engine="scans", category="exploration", design_ref="DESIGN.md §4.3",
        technique="deterministic simulation of schedules: each seeded scan input is executed sequentially (shared model) and under a simulated process pool (pickled payloads, seeded worker assignment / completion order, W in 1..16, optional worker death), lazily evaluated views read in a seeded order, content-keyed failing rows; every row compared with an independent simulation of a fresh model",
        text="For scan.steady_state/time_course/protocol/protocol_time_course and mc.* (incl. mc.scan_steady_state) over models with a derived variable, a readout and a parameter defined by an initial assignment over the initial values: each row's variables and fluxes must equal a separate simulation of a fresh model with that row's values, sit at the row's position under the row's index label, be identical across all schedules (sequential, pool with any worker count and completion order, rows <,=,> workers) and read orders; a failing row (poisoned integrator) must read as NaN state on the grid of a successful row without disturbing its neighbours. Added later: scans with a cache an earlier scan partly filled, caller-kept objects passed to several scans, and the assignment-defined parameter itself as a scanned column. A model whose initial value is computed from a scanned parameter; the caller's one model object scanned again by the following schedules; the caller editing its model between the scan and the first read of the lazily evaluated views.",
        note="Oracle = MxlPy's own Simulator on a fresh factory model nobody else touches. In-process SimPool shares module state with the parent (stub-fidelity self-test compares it with real pebble). Nothing is demanded of flux values of a NaN placeholder (state-independent rates legitimately evaluate).",
    ),
    "C10": dict(
        engine="views", category="exploration", design_ref="DESIGN.md §4.4",
        technique="deterministic simulation of reader/mutator interleavings on shared state: seeded segment histories, then seeded sequences of view reads (all flag / concatenated / normalise combinations, repeats) interleaved with post-hoc parameter mutations of the shared model, first lazy read before or after a mutation; per-row oracle from a fresh model under independently recorded segment parameters",
        text="For seeded multi-segment results (parameter updates, overrides and protocol steps between segments; models with derived variable/parameter, readout, parameter-defined and state-dependent computed coefficients, a surrogate): every public view equals, row by row, the values a fresh model gives at that row's state and time under its segment's parameters - also when the user changed the model's parameters after the simulation and before (or between) reads; N(state) x reported fluxes = reported derivatives; concatenated = per-segment list stacked; producers/consumers = fluxes with positive/negative coefficient, scaled by the row's coefficient on request; normalise divides by the scalar / per-segment / per-row factor; a repeated read equals the first bit for bit. Added later: two result objects taken from one simulator at different stages and read in turn, the simulator continuing (successfully or with a failing segment) after a result was taken, reads INTERRUPTED inside the model evaluation and repeated, and a caller that rescales returned frames in place.",
        note="Model evaluation on a fresh model is trusted (C01/C13). Segment parameters are recorded by the harness itself, not read from the result. Coefficient signs fixed across segments; >= 2 rows per segment.",
    ),
    "C14": dict(
        engine="simtime", category="exploration", design_ref="DESIGN.md §4.2 (C14 additions)",
        technique="deterministic simulation: seeded protocol layouts (1-4 steps, unequal durations, repeated values, ragged steps) started on fresh and continued simulators (after simulate, override, steady state, clear), reference model with exact switching times; exact point-set oracle for the time-course form; per-row flux oracle",
        text="Same machine as C04 with a protocol-heavy op mix: step i's values must govern (cum_{i-1}, cum_i] shifted by the start time, also after overrides / steady-state runs / clears; the time-course form must return exactly start + requested-inside + boundaries, each once; fluxes of a row inside step i must equal the rate law at that row's state under step i's values. Families F1/F4 make every later state depend on every switching time. Added later: steps that are tiny relative to the clock (1/128..1/512 at t>=100), protocols whose LATER step makes the solver raise, caller-kept protocol tables that are edited / derived / re-used, held results whose fluxes are read late.",
        note="Ragged steps (a step names only the parameters it changes) are a separate sub-check with the expectation 'unnamed parameters keep their value'. Flux views are read from a deep copy of the result so that reading cannot disturb the run.",
    ),
    "C15": dict(
        engine="steady", category="exploration", design_ref="DESIGN.md §4.2 (C15 paragraph)",
        technique="deterministic simulation with stepper fault injection: seeded steady-state searches on real Scipy with failed-step / non-finite faults injected at poll n through the scipy.integrate.ode seam, budget exhaustion on networks without steady state, relaxation-time sweep for bounded liveness in simulated time",
        text="Decides (i) failure reporting: under injected stepper faults and on networks without steady state (accumulation, growth, non-autonomous drive, scan rows with k=0) the outcome must be a failure value / NaN row, never a state; (ii) bounded liveness in simulated time: stable networks with relaxation times 0.05..400 must report success within the 1000-poll budget. The clause 'a reported success equals the analytic steady state, fluxes balance, default/user y0, abs/rel norm' is evaluated on the same runs as plain seeded sampling. Added later: several searches on ONE simulator with parameter changes / reads / simulations / clears in between, a family whose coefficient is computed from a parameter (scans over it, models evaluated before being scanned), scans with a partly filled cache and with non-unique row labels.",
        note="Only the repo's real Scipy integrator (the loop under test lives there). Accuracy bound 1e-4*(1+|x*|) + 100*tolerance. The accuracy clause is a pure function of the input: sampled, not decided by scheduling/fault search.",
    ),
    "C17": dict(
        engine="session", category="exploration", design_ref="DESIGN.md §4.7",
        technique="deterministic simulation of one interpreter session: seeded write/tick/read/query(/pickle) histories over documents and colliding file stems, simulated file clock for the generated sources (whole-second .pyc validation), bytecode cache on/off; oracle = the same document read in isolation",
        text="REDUCED SCOPE: only the clause 'two documents read in one session do not interfere'. Seeded sessions write 2-4 small documents to paths whose stems are distinct, equal in different directories, or collapse to one generated-module name, advance a simulated file clock by 0/0.3/1/5 s, read them into handles and query (also after a pickle round trip, as every parallel routine does) every handle at every later point; each answer must equal that of the same document read in isolation (unique stem, empty cache dir, bytecode off; equivalence with a separate process checked at start). Added later: other library calls in the session (code generation of hand-written twins), document pairs differing only in an initial assignment or in a -1 vs -2, stems of 83/120 characters, torn writes of the generated module, and a caller that modifies a model it read and reads the document again.",
        note="NOT decided: that the imported model reproduces the document (pure function of the document); an error the isolated read shares is not reported. A model becoming unpicklable after re-reading the SAME document is counted, not charged (one document, not two).",
    ),
    "C18": dict(
        engine="mca", category="exploration", design_ref="DESIGN.md §4.5",
        technique="deterministic simulation of schedules: MCA routines run sequentially (shared model) and under a simulated pool (W in 1..16, seeded completion order), with content-keyed steady-state failures; before/after snapshots of the caller's model; closed-form sensitivities of power-law chains as value oracle",
        text="For seeded power-law chains: variable/parameter elasticities (scaled/unscaled, default/given state, to_scan subsets), mca.response_coefficients under sequential and pool schedules (with and without variables=), mc.response_coefficients. Decided: the caller's model content, parameter values and initial values are identical before and after every routine under every schedule; coefficient tables are identical across schedules; inside those runs the values equal the kinetic orders resp. the closed-form steady-state sensitivities. Added later: elasticity routines interrupted half-way, elasticities over a model with an assignment-defined parameter (giving up is not charged, a changed model is), the cycle analysis repeated on a model whose own initial values were changed.",
        note="Value oracle tolerance: 1e-6 for elasticities, 1e-5 (ExactLinear) / 3e-2 plus difference-quotient noise (real Scipy) for response coefficients. In-process SimPool.",
    ),
    "C19": dict(
        engine="crash", category="fault_enumeration", design_ref="DESIGN.md §4.6",
        technique="deterministic simulation with crash injection: forked process incarnations killed at every traced line of mxlpy/parallel.py and at byte offsets of every result file (torn writes), reruns compared with a cache-free reference; lockstep pool (one parked thread per task, seeded step choice) for workers in flight together, per-task timeouts and whole-process death at scheduler steps",
        text="For seeded workloads (parallelise with a logging function, scan.time_course, scan.steady_state, scan.protocol, mc.time_course; int/str/tuple/near-identical keys; results 0..70 kB; sequential or simulated pool) the histories 'no cache -> run killed at p [-> killed again] -> rerun -> rerun' are executed for EVERY line-level kill point inside mxlpy/parallel.py (exhaustive per workload), sampled kill points in all mxlpy frames, and byte-granular torn writes of every result file (whole process or single worker dies). Rerun must complete and equal the cache-free reference for every key; a further run must recompute nothing; an uninterrupted cached run must equal the reference. Also: several cached runs inside one process (caller mutates returned results, wipes and reuses the directory, an in-process interruption followed by a rerun under the same pid); and pool workloads under the lockstep back-end, where several workers are mid-write at once while the parent handles a task timeout, and where the process dies at a scheduler step with several temporaries on disk - the cached run must complete exactly when the uncached run under the same plan does, return the same keys and values, and the reruns must complete, agree and recompute nothing. Further: a parent-only death in a lockstep run (the in-flight workers live on as orphans with their own process ids and finish their task while the rerun is already writing into the same directory), and workloads whose cache directory lies on another (simulated) file system than the temp directory, with kill points inside a copy that replaces a rename.",
        note="A user-supplied cache (own naming, extension-sensitive writer, own reader) takes part in the transparency / no-recompute / lockstep checks only - the atomicity of a custom writer is its own business. Process-kill semantics only (what reached the OS survives; no power-loss reordering). C-level writes inside pickle.dump are interrupted only through the path seam. Lockstep workers are threads of one process (one pid): pid-dependent naming is exercised through the same-pid rerun history instead.",
    ),
    "C20": dict(
        engine="fit", category="exploration", design_ref="DESIGN.md §4.8",
        technique="deterministic simulation through the minimiser seam: a scripted candidate sequence (start point, true values, repeats, candidates whose integration is made to fail) is evaluated on the one shared model copy the routine keeps mutating; each evaluation compared with the shipped loss recomputed on a fresh model; honesty runs with the real scipy minimiser; before/after snapshots of the caller's model",
        text="REDUCED SCOPE (the history-shaped clauses only): every residual evaluation, whatever was evaluated before it on the shared model, equals the shipped loss between the data and the prediction of a fresh model at exactly that candidate (standard scaling with the data's mean/std; parameters and initial values routed by name); a failed integration gives inf; with the real LocalScipyMinimizer the returned loss is <= the loss at the start point and equals the loss recomputed at the returned values; with copying enabled the caller's model is unchanged. Added later: two fits in a row sharing one minimiser / settings list / p0; ragged protocols; transient faults in a later protocol step of one evaluation; joint fits whose earlier pairs bring their own loss / start state; a worker death in one evaluation of a joint fit (giving the fit up is accepted, a residual that misses a pair is not). Honesty runs also with user-chosen scipy methods (BFGS, CG, Nelder-Mead) and bounds that exclude the generating values.",
        note="NOT decided: 'every shipped loss is smallest at a perfect prediction and does not reward size' - algebraic laws of seven pure functions with no schedule, fault or history in them. A real optimiser raising (values the solver refuses) is counted, not charged.",
    ),
}

ENGINES = [
    {"name": "simkit", "path": "simkit/", "serves_properties": sorted(CHECKS), "kind_free_text": "seeded scheduler core: labelled PRNG streams, fork-based runner with watchdog, trace digests, ddmin shrinker, replay files, known-finding matching, evidence writer"},
    {"name": "crash", "path": "simkit/machines/crash.py", "serves_properties": ["C19"], "kind_free_text": "crash-history machine: fork+settrace kill points, CrashPath torn writes (simkit/crashfs.py), SimPool (simkit/simpool.py) incl. lockstep back-end (simkit/lockstep.py)"},
    {"name": "fit", "path": "simkit/machines/fit.py", "serves_properties": ["C20"], "kind_free_text": "fit machine: SimMinimizer seam, fresh-model residual oracle, honesty runs"},
    {"name": "mca", "path": "simkit/machines/mca.py", "serves_properties": ["C18"], "kind_free_text": "MCA machine: sequential vs SimPool schedules, snapshots, analytic power-law sensitivities"},
    {"name": "scans", "path": "simkit/machines/scans.py", "serves_properties": ["C09"], "kind_free_text": "scan-schedule machine: SimPool (simkit/simpool.py), Faulty/ExactLinear integrators, independent-row oracle"},
    {"name": "session", "path": "simkit/machines/session.py", "serves_properties": ["C17"], "kind_free_text": "session machine: simulated file clock, bytecode bit, colliding stems, isolated-read oracle"},
    {"name": "simtime", "path": "simkit/machines/simtime.py", "serves_properties": ["C04", "C14"], "kind_free_text": "simulator-history machine: reference model of time keeping, closed-form families (simkit/models.py), integrator seam (simkit/integrators.py)"},
    {"name": "views", "path": "simkit/machines/views.py", "serves_properties": ["C10"], "kind_free_text": "result-view machine: reader/mutator interleavings on a shared Simulation/Model, per-row fresh-model oracle"},
    {"name": "steady", "path": "simkit/machines/steady.py", "serves_properties": ["C15"], "kind_free_text": "steady-state machine: FaultyOde stepper seam, relaxation-time sweep, scan rows without steady state"},
    {"name": "edits", "path": "simkit/machines/edits.py", "serves_properties": ["C03"], "kind_free_text": "edit-history machine: online op generator, snapshot/rebuild refinement oracle"},
]

def main() -> None:
    repo_fix = subprocess.run(["git", "-C", "/repo", "log", "--format=%h %s"], capture_output=True, text=True, check=False).stdout.splitlines()
    hooks = [ln.split()[0] for ln in repo_fix if " hook:" in ln or ln.split(" ", 1)[1].startswith("verif-hook")]
    m = {
        "version": 1,
        "setup_cmd": "./setup.sh",
        "hooks": {
            "guard": "MXLPY_VERIF",
            "enable": "no source hooks are needed: every seam is an existing constructor argument, module attribute or path object; checks run the current working tree of /repo/src through PYTHONPATH (VERIF_REPO_SRC overrides it for sensitivity runs on scratch copies)",
            "baseline_off_cmd": "cd /repo && /venv/bin/python -m pytest -ra -q -p no:cacheprovider --timeout=900 --continue-on-collection-errors",
            "source_commits": hooks,
            "add_only": True,
        },
        "engines": [e for e in ENGINES if e["name"] == "simkit" or any(p in CHECKS for p in e["serves_properties"])],
        "checks": [
            {
                "property_id": pid,
                "quick_cmd": f"./check {pid} --tier quick",
                "thorough_cmd": f"./check {pid} --tier thorough",
                "evidence_file": f"/verif/evidence/{pid}.json",
                "replay_cmd_template": f"./check {pid} --replay {{path}}",
                "engine": c["engine"],
                "level_claimed": {"category": c["category"], "text": c["text"], "design_ref": c["design_ref"]},
                "level_note": c["note"],
                "technique": c["technique"],
            }
            for pid, c in sorted(CHECKS.items())
        ],
        "notes": "Deterministic simulation with fault injection (see DESIGN.md). Exit 0 = held on everything explored (KNOWN-FINDING lines possible), 1 = VIOLATION with replay file, 2 = harness error. Genuine defects repaired by 'fix:' commits in /repo are recorded in known_findings.json (status fixed) with their pre-fix minimised replay files under fixed/.",
        "not_applicable": [{"property_id": k, "reason": v} for k, v in sorted(NA.items()) if k not in CHECKS]
        + [{"property_id": k, "reason": "claimed in DESIGN.md; machine not built yet in this commit"} for k in ["C04", "C09", "C10", "C14", "C15", "C17", "C18", "C19", "C20"] if k not in CHECKS],
    }
    (VERIF / "MANIFEST.json").write_text(json.dumps(m, indent=1))
    print("checks:", sorted(CHECKS), "not_applicable:", [n["property_id"] for n in m["not_applicable"]])

if __name__ == "__main__":
    main()
