#!/usr/bin/env python3
"""Regenerate MANIFEST.json from the table below (kept in one place)."""
import json
import subprocess
from pathlib import Path

VERIF = Path(__file__).resolve().parent.parent

NA = {
    "C01": "pure function of (model content, state, time): no schedule, clock, fault or history in the statement; its stateful shadow (answers independent of earlier queries/edits) is decided under C03",
    "C02": "pure function of the declared dependency graph (inputs x declaration orders): deciding it is enumeration/input generation, not simulation",
    "C05": "pure construction of a labelled model from (base model, label counts, maps): no interleaving, clock, I/O or fault",
    "C06": "pure source-to-expression translation quantified over programs and inputs only",
    "C07": "pure model-to-source translation into four languages; no interleaving or fault in the statement",
    "C08": "pure write/read translation; the file in between is not subjected to faults by the statement (session-state shadow is exercised under C17)",
    "C11": "pure model -> source -> model translation",
    "C12": "pure symbolic/numeric equivalence over models, states and integrator methods",
    "C13": "pure classification (static vs dynamic) and evaluation at supplied states",
    "C16": "pure algebraic identity between two constructed models",
}

CHECKS = {
    "C03": dict(
        engine="edits", category="exploration", design_ref="DESIGN.md §4.1",
        technique="deterministic simulation: seeded edit/query/rejection/poison histories on one Model, refinement against a model freshly rebuilt from its own content after every op; ddmin-minimised replay files",
        text="Seeded search over histories of public Model edits (all single and batch mutators, ~25% deliberately rejected, poisoned functions that kill a query while the memo is being built, dangling/cyclic content) interleaved with queries; after every op the edited model must refine a model freshly rebuilt from its own content (same op outcome, same content, same ids, same query answers), a refused edit must change nothing, names must stay disjoint and re-usable. Sampling, not proof; ~2M histories/hour.",
        note="Trusted: rebuild through public add_* from get_raw_* copies is 'a freshly built model with the same content'; Model._data read directly (no public getter). Cannot see wrong evaluation that a fresh model shares (C01/C02/C13).",
    ),
    "C19": dict(
        engine="crash", category="fault_enumeration", design_ref="DESIGN.md §4.6",
        technique="deterministic simulation with crash injection: forked process incarnations killed at every traced line of mxlpy/parallel.py and at byte offsets of every result file (torn writes), reruns compared with a cache-free reference",
        text="For seeded workloads (parallelise with a logging function, scan.time_course, scan.steady_state; int/str/tuple keys; results 0..70 kB; sequential or simulated pool) the histories 'no cache -> run killed at p [-> killed again] -> rerun -> rerun' are executed for EVERY line-level kill point inside mxlpy/parallel.py (exhaustive per workload), sampled kill points in all mxlpy frames, and byte-granular torn writes of every result file (whole process or single worker dies). Rerun must complete and equal the cache-free reference for every key; a further run must recompute nothing; an uninterrupted cached run must equal the reference.",
        note="Process-kill semantics only (what reached the OS survives; no power-loss reordering). C-level writes inside pickle.dump are interrupted only through the path seam. In-process SimPool: one task is in flight at a time, several simultaneously torn files are approximated by double-crash histories.",
    ),
}

ENGINES = [
    {"name": "simkit", "path": "simkit/", "serves_properties": sorted(CHECKS), "kind_free_text": "seeded scheduler core: labelled PRNG streams, fork-based runner with watchdog, trace digests, ddmin shrinker, replay files, known-finding matching, evidence writer"},
    {"name": "crash", "path": "simkit/machines/crash.py", "serves_properties": ["C19"], "kind_free_text": "crash-history machine: fork+settrace kill points, CrashPath torn writes (simkit/crashfs.py), SimPool (simkit/simpool.py)"},
    {"name": "edits", "path": "simkit/machines/edits.py", "serves_properties": ["C03"], "kind_free_text": "edit-history machine: online op generator, snapshot/rebuild refinement oracle"},
]

def main() -> None:
    repo_fix = subprocess.run(["git", "-C", "/repo", "log", "--format=%h %s"], capture_output=True, text=True, check=False).stdout.splitlines()
    hooks = [ln.split()[0] for ln in repo_fix if " hook:" in ln or ln.split(" ", 1)[1].startswith("verif-hook")]
    m = {
        "version": 1,
        "setup_cmd": "./setup.sh",
        "hooks": {
            "guard": "MXLPY_VERIF",
            "enable": "no source hooks are needed: every seam is an existing constructor argument, module attribute or path object; checks run the current working tree of /repo/src through PYTHONPATH (VERIF_REPO_SRC overrides it for sensitivity runs on scratch copies)",
            "baseline_off_cmd": "cd /repo && /venv/bin/python -m pytest -ra -q -p no:cacheprovider --timeout=900 --continue-on-collection-errors",
            "source_commits": hooks,
            "add_only": True,
        },
        "engines": [e for e in ENGINES if e["name"] == "simkit" or any(p in CHECKS for p in e["serves_properties"])],
        "checks": [
            {
                "property_id": pid,
                "quick_cmd": f"./check {pid} --tier quick",
                "thorough_cmd": f"./check {pid} --tier thorough",
                "evidence_file": f"/verif/evidence/{pid}.json",
                "replay_cmd_template": f"./check {pid} --replay {{path}}",
                "engine": c["engine"],
                "level_claimed": {"category": c["category"], "text": c["text"], "design_ref": c["design_ref"]},
                "level_note": c["note"],
                "technique": c["technique"],
            }
            for pid, c in sorted(CHECKS.items())
        ],
        "notes": "Deterministic simulation with fault injection (see DESIGN.md). Exit 0 = held on everything explored (KNOWN-FINDING lines possible), 1 = VIOLATION with replay file, 2 = harness error. Genuine defects repaired by 'fix:' commits in /repo are recorded in known_findings.json (status fixed) with their pre-fix minimised replay files under fixed/.",
        "not_applicable": [{"property_id": k, "reason": v} for k, v in sorted(NA.items()) if k not in CHECKS]
        + [{"property_id": k, "reason": "claimed in DESIGN.md; machine not built yet in this commit"} for k in ["C04", "C09", "C10", "C14", "C15", "C17", "C18", "C19", "C20"] if k not in CHECKS],
    }
    (VERIF / "MANIFEST.json").write_text(json.dumps(m, indent=1))
    print("checks:", sorted(CHECKS), "not_applicable:", [n["property_id"] for n in m["not_applicable"]])

if __name__ == "__main__":
    main()
