#!/usr/bin/env python3
"""Generate the task text for an independent seeding agent (property text + worktree only).
usage: seed_prompt.py <PROP> <round> [avoid text]"""
import json
import sys

pid, rnd = sys.argv[1], sys.argv[2]
avoid = sys.argv[3] if len(sys.argv) > 3 else ""
p = next(json.loads(l) for l in open('/verif/properties.jsonl') if json.loads(l)['id'] == pid)
wt = f"/tmp/seed{rnd}-{pid}"
print(f"""You are helping to evaluate a verification effort by planting realistic defects. You work ONLY inside the scratch git worktree {wt} (a checkout of the Python library MxlPy, package source under src/mxlpy, tests under tests/). Do not read or write anything under /verif or /repo, and do not look for any verification machinery: your work must be independent of it.

The library is supposed to satisfy this property:

  id: {p['id']}
  title: {p['title']}
  statement: {p['statement']}
  quantified over: {', '.join(p['quantifier']['over'])} - {p['quantifier']['text']}

Your task: produce TWO different, independent source changes to src/mxlpy (each a small, realistic edit of the kind a maintainer could make by mistake during a refactor, a performance optimisation, a clean-up or a well-meant robustness fix) such that each change on its own
  (a) BREAKS the property above,
  (b) still imports/compiles, and the existing test suite still passes exactly as before (see below),
  (c) is HARD to notice: it needs something specific to manifest - a particular interleaving or order of several calls, a crash or fault at one particular point, a particular schedule (worker count, completion order, rows vs workers), state left over from an EARLIER call, an unusual but legal combination of arguments, or two cooperating code sites that each look fine alone. Changes that an ordinary single call exposes are worthless here.
{avoid}
Read the responsible code first and think about which executions are rare. Prefer mechanisms involving leftover state (caches, memo tables, objects shared between calls or between rows/workers/segments), ordering, partial failure and recovery.

For each change i in (1, 2) write into {wt}/OUT/<i>/ :
  - patch.diff : output of `git diff` for that change alone, relative to the clean worktree HEAD (so that `git apply patch.diff` on a clean checkout reproduces it),
  - demo.py : a small stand-alone program (run as `PYTHONPATH=<worktree>/src /venv/bin/python demo.py`) that exits 0 and prints PASS on the clean tree and exits 1 and prints FAIL on the changed tree, demonstrating the property violation through the library's public API,
  - meta.json : {{"property": "{pid}", "what_breaks": "...", "needs_to_manifest": "...", "files": [...]}}.

How to check the test suite: run `python3 /tmp/seedtools/baseline_check.py {wt} -n 6` from any directory. It runs the pinned pytest suite against the worktree's src (about 2-4 minutes) and prints 'stable_not_passing=0' and exits 0 when every test that passed before still passes (about 760 SBML-suite tests fail even on the clean tree; that is expected and ignored). A change that makes it report stable tests as not passing is not acceptable. Run single tests with `cd {wt} && PYTHONPATH={wt}/src /venv/bin/python -m pytest -q -p no:cacheprovider tests/<file>`.
Python: /venv/bin/python (3.12). Always set PYTHONPATH={wt}/src so that the worktree's code runs, and OMP_NUM_THREADS=1, and HOME={wt}/OUT/home (create it) so that nothing is shared with other processes. There is no network. Import of mxlpy takes ~6 s.

Work method: make change 1 in the worktree, verify demo fails and suite passes, save `git diff > OUT/1/patch.diff`, then `git checkout -- .` (keep OUT/, it is untracked), verify demo passes on the clean tree; repeat for change 2. Leave the worktree clean (only OUT/ untracked) when done. Finish with a short report: for each change, what it breaks, what it needs to manifest, and the commands you ran with their results.""")
