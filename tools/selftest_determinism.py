#!/usr/bin/env python3
"""Determinism self-test: same seeds, fresh interpreters, different PYTHONHASHSEED and
worker counts; per-seed trace digests must be identical.

usage: selftest_determinism.py PROP [--runs N]
"""
import json
import os
import subprocess
import sys
import tempfile
from pathlib import Path

VERIF = Path(__file__).resolve().parent.parent
prop = sys.argv[1]
runs = sys.argv[sys.argv.index("--runs") + 1] if "--runs" in sys.argv else "200"
# (PYTHONHASHSEED, workers, every seed in its own forked child?)
configs = [("0", "16", False), ("0", "16", False), ("12345", "16", False), ("0", "3", False), ("987", "7", False), ("0", "16", True)]
outs = []
tmp = Path(tempfile.mkdtemp(prefix="mxlpy-det."))
try:
    for i, (hs, jobs, iso) in enumerate(configs):
        f = tmp / f"d{i}.json"
        env = dict(os.environ, SIMKIT_HASHSEED=hs)
        p = subprocess.run(
            [str(VERIF / "check"), prop, "--runs", runs, "--jobs", jobs, "--digests", str(f), "--no-evidence", "--no-shrink", "--budget", "3000", *(["--isolate"] if iso else [])],
            env=env, capture_output=True, text=True, check=False, timeout=7200,
        )
        if p.returncode == 2:
            print(p.stdout[-2000:], p.stderr[-2000:])
            sys.exit(2)
        outs.append(json.loads(f.read_text()))
        print(f"config hashseed={hs} jobs={jobs} isolate={iso}: {len(outs[-1])} digests, exit {p.returncode}")
    bad = 0
    for k in outs[0]:
        vals = {o.get(k) for o in outs}
        if len(vals) != 1:
            bad += 1
            if bad <= 5:
                print("DIVERGENCE seed", k, [o.get(k) for o in outs])
    print(f"{prop}: {len(outs[0])} seeds x {len(configs)} configurations, divergent seeds: {bad}")
    sys.exit(1 if bad else 0)
finally:
    import shutil
    shutil.rmtree(tmp, ignore_errors=True)
