#!/bin/bash
# Run every registered quick check with several base seeds; any exit != 0 is printed.
# usage: tools/seed_sweep.sh [seeds...]      (default: 1 2 3 7 11)
cd "$(dirname "$0")/.."
seeds="${@:-1 2 3 7 11}"
bad=0
for p in $(python3 -c "import json;print(' '.join(c['property_id'] for c in json.load(open('MANIFEST.json'))['checks']))"); do
  for s in $seeds; do
    out=$(VERIF_SEED=$s ./check $p --tier quick --no-evidence 2>&1); rc=$?
    echo "$p seed=$s exit=$rc $(echo "$out" | tail -1 | cut -c1-160)"
    if [ $rc -ne 0 ]; then bad=1; echo "$out" | grep -E "^violation|HARNESS" | head -5; fi
  done
done
exit $bad
