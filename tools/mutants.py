#!/usr/bin/env python3
"""Sensitivity self-test: apply small source mutations to a scratch copy of src/mxlpy
(never to /repo), run the quick tier of the owning check against it (VERIF_REPO_SRC), and
require a VIOLATION.  The scratch copy lives under $TMPDIR and is removed afterwards.

usage: mutants.py [--only ID[,ID...]] [--prop Cxx] [--tier quick] [--runs N] [--list]
"""

from __future__ import annotations

import argparse
import json
import os
import shutil
import subprocess
import sys
import tempfile
import time
from pathlib import Path

VERIF = Path(__file__).resolve().parent.parent
sys.path.insert(0, str(VERIF))
from tools.mutant_list import MUTANTS  # noqa: E402


def _write(out: Path, results: list) -> None:
    out.parent.mkdir(exist_ok=True)
    prev = {}
    if out.exists():
        prev = {r["id"]: r for r in json.loads(out.read_text())}
    for r in results:
        prev[r["id"]] = r
    out.write_text(json.dumps(sorted(prev.values(), key=lambda r: (len(r["id"]), r["id"])), indent=1))


def main() -> int:
    ap = argparse.ArgumentParser()
    ap.add_argument("--only", default=None)
    ap.add_argument("--prop", default=None)
    ap.add_argument("--tier", default="quick")
    ap.add_argument("--runs", default=None)
    ap.add_argument("--list", action="store_true")
    ap.add_argument("--out", default=str(VERIF / "sensitivity" / "results.json"))
    args = ap.parse_args()
    sel = MUTANTS
    if args.only:
        ids = set(args.only.split(","))
        sel = [m for m in sel if m["id"] in ids]
    if args.prop:
        sel = [m for m in sel if m["property"] == args.prop]
    if args.list:
        for m in sel:
            print(m["id"], m["property"], m["file"], "-", m["what"])
        return 0
    results = []
    scratch = Path(tempfile.mkdtemp(prefix="mxlpy-mut."))
    try:
        for m in sel:
            src = scratch / "src"
            if src.exists():
                shutil.rmtree(src)
            shutil.copytree("/repo/src", src, ignore=shutil.ignore_patterns("__pycache__"))
            f = src / "mxlpy" / m["file"]
            text = f.read_text()
            ok_apply = True
            for old, new in m["edits"]:
                if text.count(old) < 1:
                    ok_apply = False
                    break
                text = text.replace(old, new, 1) if not m.get("all") else text.replace(old, new)
            if not ok_apply:
                print(f"{m['id']}: PATTERN NOT FOUND (source drifted) - skipped")
                results.append({"id": m["id"], "property": m["property"], "status": "pattern_not_found"})
                continue
            f.write_text(text)
            env = dict(os.environ, VERIF_REPO_SRC=str(src))
            cmd = [str(VERIF / "check"), m["property"], "--tier", args.tier, "--no-evidence", "--max-min", "3"]
            if args.runs:
                cmd += ["--runs", args.runs]
            t0 = time.time()
            p = subprocess.run(cmd, env=env, capture_output=True, text=True, timeout=3600, check=False)
            dt = time.time() - t0
            sigs = [ln.split()[1] for ln in p.stdout.splitlines() if ln.startswith("violation ")]
            status = "caught" if p.returncode == 1 and "VIOLATION" in p.stdout else ("harness_error" if p.returncode == 2 else "MISSED")
            print(f"{m['id']} [{m['property']}] {status} in {dt:.0f}s  sigs={sigs[:4]}  -- {m['what']}")
            if status == "harness_error":
                print(p.stderr[-1500:])
            results.append({"id": m["id"], "property": m["property"], "what": m["what"], "status": status, "signatures": sigs[:8], "wall_s": round(dt, 1)})
            _write(Path(args.out), results)  # keep what is done if the run is cut short
    finally:
        shutil.rmtree(scratch, ignore_errors=True)
        for d in (VERIF / "replays").glob("*.json") if (VERIF / "replays").exists() else []:
            pass
    _write(Path(args.out), results)
    missed = [r for r in results if r["status"] != "caught"]
    print(f"{len(results) - len(missed)}/{len(results)} caught")
    return 1 if missed else 0


if __name__ == "__main__":
    sys.exit(main())
