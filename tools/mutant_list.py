"""Hand-written sensitivity mutants (DESIGN Appendix A).  Each: one small edit that breaks
exactly one mechanism an anchor names.  Applied to scratch copies only."""

MUTANTS = [
    # ------------------------------------------------------------------ C03
    {
        "id": "M01", "property": "C03", "file": "model.py",
        "what": "update_derived loses @_invalidate_cache",
        "edits": [("    @_invalidate_cache\n    def update_derived(", "    def update_derived(")],
    },
    {
        "id": "M02", "property": "C03", "file": "model.py",
        "what": "update_parameter loses @_invalidate_cache",
        "edits": [("    @_invalidate_cache\n    def update_parameter(", "    def update_parameter(")],
    },
    {
        "id": "M03", "property": "C03", "file": "model.py",
        "what": "add_parameter stores the value before registering the id",
        "edits": [(
            '        self._insert_id(name=name, ctx="parameter")\n        self._parameters[name] = Parameter(value=value, unit=unit, source=source)',
            '        self._parameters[name] = Parameter(value=value, unit=unit, source=source)\n        self._insert_id(name=name, ctx="parameter")',
        )],
    },
    {
        "id": "M04", "property": "C03", "file": "model.py",
        "what": "memo assigned (partially filled) before the evaluation loop that may raise",
        "edits": [(
            "        for name in order:\n            to_sort[name].calculate_inpl(name, dependent)\n",
            "        self._cache = ModelCache(order=order, var_names=self.get_variable_names(), dyn_order=[], base_parameter_values=base_parameter_values, all_parameter_values=dict(base_parameter_values), stoich_by_cpds={}, dyn_stoich_by_cpds={}, initial_conditions=dict(base_variable_values))\n"
            "        for name in order:\n            to_sort[name].calculate_inpl(name, dependent)\n",
        )],
    },
    {
        "id": "M05", "property": "C03", "file": "model.py",
        "what": "_get_args updates the memoised parameter dict in place",
        "edits": [(
            "        args = cache.all_parameter_values | variables | self._data\n",
            "        args = cache.all_parameter_values\n        args.update(variables)\n        args.update(self._data)\n",
        )],
    },
    {
        "id": "M06", "property": "C03", "file": "model.py",
        "what": "remove_data loses @_invalidate_cache (revert part of fix C)",
        "edits": [("    @_invalidate_cache\n    def remove_data(", "    def remove_data(")],
    },
    {
        "id": "M07", "property": "C03", "file": "model.py",
        "what": "remove_reaction drops the id before checking the container (revert part of fix A)",
        "edits": [(
            '        if name not in self._reactions:\n            msg = f"{name!r} not found in reactions"\n            raise KeyError(msg)\n',
            "",
        )],
    },
    {
        "id": "M08", "property": "C03", "file": "model.py",
        "what": "remove_derived forgets to free the id (name cannot be re-used)",
        "edits": [(
            "        self._remove_id(name=name)\n        self._derived.pop(name)",
            "        self._derived.pop(name)",
        )],
    },
    {
        "id": "M09", "property": "C03", "file": "model.py",
        "what": "scale_parameter writes the value directly (no invalidation)",
        "edits": [(
            "        return self.update_parameter(name, old * factor)",
            "        self._parameters[name].value = old * factor\n        return self",
        )],
    },
    {
        "id": "M10", "property": "C03", "file": "model.py",
        "what": "update_surrogate loses @_invalidate_cache (revert part of fix C)",
        "edits": [("    @_invalidate_cache\n    def update_surrogate(", "    def update_surrogate(")],
    },
    {
        "id": "M11", "property": "C03", "file": "model.py",
        "what": "add_readout loses @_invalidate_cache (revert part of fix C)",
        "edits": [("    @_invalidate_cache\n    def add_readout(", "    def add_readout(")],
    },
    {
        "id": "M12", "property": "C03", "file": "model.py",
        "what": "update_variables applies elements before validating (revert part of fix F)",
        "edits": [('        self._check_all_known(variables, self._variables, ctx="variables")\n', "")],
    },
    # ------------------------------------------------------------------ C19
    {
        "id": "M29", "property": "C19", "file": "parallel.py",
        "what": "a placeholder is saved before fn runs and overwritten afterwards",
        "edits": [("        res = fn(v)\n        cache.save_fn(file, res)", "        cache.save_fn(file, None)\n        res = fn(v)\n        cache.save_fn(file, res)")],
    },
    {
        "id": "M30", "property": "C19", "file": "parallel.py",
        "what": "cache file names collide for different keys",
        "edits": [('    return f"{k}.p"', '    return f"{len(str(k)) % 3}.p"')],
    },
    {
        "id": "M31", "property": "C19", "file": "parallel.py",
        "what": "revert the atomic write (write straight into the final path)",
        "edits": [('    with tmp.open("wb") as fp:\n        pickle.dump(data, fp)\n    tmp.replace(file)', '    with file.open("wb") as fp:\n        pickle.dump(data, fp)')],
    },
    {
        "id": "M35", "property": "C19", "file": "parallel.py",
        "what": "temporary file renamed into place before it is flushed and closed",
        "edits": [('        pickle.dump(data, fp)\n    tmp.replace(file)', '        pickle.dump(data, fp)\n        tmp.replace(file)')],
    },
    # ------------------------------------------------------------------ C04
    {"id": "M40", "property": "C04", "file": "simulator.py", "what": "time shift subtracted instead of added to the reported axis",
     "edits": [("                    time += self._time_shift", "                    time -= self._time_shift")]},
    {"id": "M41", "property": "C04", "file": "simulator.py", "what": "continuation frames keep their first (already reported) row",
     "edits": [("                    self.variables.append(results_df.iloc[1:, :])", "                    self.variables.append(results_df)")]},
    {"id": "M42", "property": "C04", "file": "integrators/int_scipy.py", "what": "integrator does not advance t0/y0 after a segment",
     "edits": [("            self.t0 = t[-1]\n            self.y0 = y[-1]\n", "")]},
    {"id": "M43", "property": "C04", "file": "simulator.py", "what": "simulate accepts an end equal to the time reached",
     "edits": [("        if t_end <= prior_t_end:", "        if t_end < prior_t_end:")]},
    {"id": "M44", "property": "C04", "file": "simulator.py", "what": "override applied to the initial instead of the last state",
     "edits": [("            self.y0 = sim_variables[-1].iloc[-1, :].to_dict() | variables", "            self.y0 = self.y0 | variables")]},
    {"id": "M45", "property": "C04", "file": "simulator.py", "what": "revert fix: legality check in relative time after override",
     "edits": [("        if t_end <= prior_t_end:", "        if t_end - (self._time_shift or 0.0) <= prior_t_end:")]},
    {"id": "M46", "property": "C04", "file": "simulator.py", "what": "overlap removal drops the point equal to... keeps points before the time reached",
     "edits": [("        if not (larger := time_points >= prior_t_end).all():", "        if not (larger := time_points >= 0).all():")]},
    {"id": "M47", "property": "C04", "file": "integrators/int_scipy.py", "what": "revert fix: steady-state search restarts from the original state",
     "edits": [("        integ.set_initial_value(self.y0, self.t0)", "        self.reset()\n        integ.set_initial_value(self.y0, self.t0)")]},
    {"id": "M48", "property": "C04", "file": "simulator.py", "what": "revert fix: second override rebuilds from the last simulated row",
     "edits": [("        if self._time_shift == time_reached:", "        if False:")]},
    {"id": "M49", "property": "C04", "file": "simulator.py", "what": "revert fix: model integrated in relative time after override",
     "edits": [("            rhs = partial(_call_at_shifted_time, self.model, shift)", "            rhs = self.model")]},
    {"id": "M50", "property": "C04", "file": "simulator.py", "what": "clear_results forgets to drop the time shift",
     "edits": [("        self.simulation_parameters = None\n        self._time_shift = None\n        self._errors = []", "        self.simulation_parameters = None\n        self._errors = []")]},
    # ------------------------------------------------------------------ C14
    {"id": "M51", "property": "C14", "file": "simulator.py", "what": "protocol time course does not advance t_start between steps",
     "edits": [("            t_start = t_end\n", "")]},
    {"id": "M52", "property": "C14", "file": "simulator.py", "what": "step interval closed on the left, open on the right",
     "edits": [("(full_time_points > t_start) & (full_time_points <= t_end)", "(full_time_points >= t_start) & (full_time_points < t_end)")]},
    {"id": "M53", "property": "C14", "file": "simulator.py", "what": "protocol on a continued simulator forgets the start time",
     "edits": [("            self.simulate(t_start + t_end.total_seconds(), steps=time_points_per_step)", "            self.simulate(t_end.total_seconds(), steps=time_points_per_step)")]},
    {"id": "M54", "property": "C14", "file": "__init__.py", "what": "make_protocol does not accumulate durations",
     "edits": [("        t0 += pd.Timedelta(seconds=step)", "        t0 = pd.Timedelta(seconds=step)")]},
    {"id": "M55", "property": "C14", "file": "simulator.py", "what": "protocol step parameters applied after the step is simulated",
     "edits": [("            self.model.update_parameters(pars.dropna().to_dict())\n            self.simulate(t_start + t_end.total_seconds(), steps=time_points_per_step)", "            self.simulate(t_start + t_end.total_seconds(), steps=time_points_per_step)\n            self.model.update_parameters(pars.dropna().to_dict())")]},
    {"id": "M56", "property": "C14", "file": "simulator.py", "what": "revert fix: ragged protocol steps write NaN",
     "edits": [("pars.dropna().to_dict()", "pars.to_dict()")], "all": True},
    {"id": "M57", "property": "C14", "file": "simulator.py", "what": "relative time points not shifted by the start time",
     "edits": [("        if time_points_as_relative:\n            time_points += t_start", "        if time_points_as_relative:\n            time_points += 0.0")]},
    # ------------------------------------------------------------------ C15
    {"id": "M60", "property": "C15", "file": "integrators/int_scipy.py", "what": "convergence test inverted",
     "edits": [("            if np.linalg.norm(diff, ord=2) < tolerance:", "            if np.linalg.norm(diff, ord=2) > tolerance:")]},
    {"id": "M61", "property": "C15", "file": "simulator.py", "what": "get_result ignores recorded errors",
     "edits": [("        if len(self._errors) > 0:\n            # FIXME", "        if False:\n            # FIXME")]},
    {"id": "M62", "property": "C15", "file": "integrators/int_scipy.py", "what": "revert fix: previous state aliased with the solver's buffer",
     "edits": [("            y2 = np.array(integ.integrate(t), dtype=float)", "            y2 = integ.integrate(t)")]},
    {"id": "M63", "property": "C15", "file": "integrators/int_scipy.py", "what": "revert fix: failed steps are not checked",
     "edits": [("            if not integ.successful():\n                return Result(IntegrationFailure())\n", "")]},
    {"id": "M64", "property": "C15", "file": "integrators/int_scipy.py", "what": "budget exhaustion returns the last state as if steady",
     "edits": [("        return Result(NoSteadyState())", "        return Result(TimeCourse(time=np.array([t], dtype=float), values=np.array([y1], dtype=float)))")]},
    {"id": "M65", "property": "C15", "file": "scan.py", "what": "steady-state scan worker falls back to the last state instead of NaN",
     "edits": [("    return res.default(\n        lambda: Simulation.default(model=model, time_points=np.array([0.0]))\n    )", "    return res.default(\n        lambda: Simulation(model=model, raw_variables=[pd.DataFrame([model.get_initial_conditions()], index=[0.0])], raw_parameters=[model.get_parameter_values()])\n    )")]},
]
