"""Hand-written sensitivity mutants (DESIGN Appendix A).  Each: one small edit that breaks
exactly one mechanism an anchor names.  Applied to scratch copies only."""

MUTANTS = [
    # ------------------------------------------------------------------ C03
    {
        "id": "M01", "property": "C03", "file": "model.py",
        "what": "update_derived loses @_invalidate_cache",
        "edits": [("    @_invalidate_cache\n    def update_derived(", "    def update_derived(")],
    },
    {
        "id": "M02", "property": "C03", "file": "model.py",
        "what": "update_parameter loses @_invalidate_cache",
        "edits": [("    @_invalidate_cache\n    def update_parameter(", "    def update_parameter(")],
    },
    {
        "id": "M03", "property": "C03", "file": "model.py",
        "what": "add_parameter stores the value before registering the id",
        "edits": [(
            '        self._insert_id(name=name, ctx="parameter")\n        self._parameters[name] = Parameter(value=value, unit=unit, source=source)',
            '        self._parameters[name] = Parameter(value=value, unit=unit, source=source)\n        self._insert_id(name=name, ctx="parameter")',
        )],
    },
    {
        "id": "M04", "property": "C03", "file": "model.py",
        "what": "memo assigned (partially filled) before the evaluation loop that may raise",
        "edits": [(
            "        for name in order:\n            to_sort[name].calculate_inpl(name, dependent)\n",
            "        self._cache = ModelCache(order=order, var_names=self.get_variable_names(), dyn_order=[], base_parameter_values=base_parameter_values, all_parameter_values=dict(base_parameter_values), stoich_by_cpds={}, dyn_stoich_by_cpds={}, initial_conditions=dict(base_variable_values))\n"
            "        for name in order:\n            to_sort[name].calculate_inpl(name, dependent)\n",
        )],
    },
    {
        "id": "M05", "property": "C03", "file": "model.py",
        "what": "_get_args updates the memoised parameter dict in place",
        "edits": [(
            "        args = cache.all_parameter_values | variables | self._data\n",
            "        args = cache.all_parameter_values\n        args.update(variables)\n        args.update(self._data)\n",
        )],
    },
    {
        "id": "M06", "property": "C03", "file": "model.py",
        "what": "remove_data loses @_invalidate_cache (revert part of fix C)",
        "edits": [("    @_invalidate_cache\n    def remove_data(", "    def remove_data(")],
    },
    {
        "id": "M07", "property": "C03", "file": "model.py",
        "what": "remove_reaction drops the id before checking the container (revert part of fix A)",
        "edits": [(
            '        if name not in self._reactions:\n            msg = f"{name!r} not found in reactions"\n            raise KeyError(msg)\n',
            "",
        )],
    },
    {
        "id": "M08", "property": "C03", "file": "model.py",
        "what": "remove_derived forgets to free the id (name cannot be re-used)",
        "edits": [(
            "        self._remove_id(name=name)\n        self._derived.pop(name)",
            "        self._derived.pop(name)",
        )],
    },
    {
        "id": "M09", "property": "C03", "file": "model.py",
        "what": "scale_parameter writes the value directly (no invalidation)",
        "edits": [(
            "        return self.update_parameter(name, old * factor)",
            "        self._parameters[name].value = old * factor\n        return self",
        )],
    },
    {
        "id": "M10", "property": "C03", "file": "model.py",
        "what": "update_surrogate loses @_invalidate_cache (revert part of fix C)",
        "edits": [("    @_invalidate_cache\n    def update_surrogate(", "    def update_surrogate(")],
    },
    {
        "id": "M11", "property": "C03", "file": "model.py",
        "what": "add_readout loses @_invalidate_cache (revert part of fix C)",
        "edits": [("    @_invalidate_cache\n    def add_readout(", "    def add_readout(")],
    },
    {
        "id": "M12", "property": "C03", "file": "model.py",
        "what": "update_variables applies elements before validating (revert part of fix F)",
        "edits": [('        self._check_all_known(variables, self._variables, ctx="variables")\n', "")],
    },
    # ------------------------------------------------------------------ C19
    {
        "id": "M29", "property": "C19", "file": "parallel.py",
        "what": "a placeholder is saved before fn runs and overwritten afterwards",
        "edits": [("        res = fn(v)\n        cache.save_fn(file, res)", "        cache.save_fn(file, None)\n        res = fn(v)\n        cache.save_fn(file, res)")],
    },
    {
        "id": "M30", "property": "C19", "file": "parallel.py",
        "what": "cache file names collide for different keys",
        "edits": [('    return f"{k}.p"', '    return f"{len(str(k)) % 3}.p"')],
    },
    {
        "id": "M31", "property": "C19", "file": "parallel.py",
        "what": "revert the atomic write (write straight into the final path)",
        "edits": [('    with tmp.open("wb") as fp:\n        pickle.dump(data, fp)\n    tmp.replace(file)', '    with file.open("wb") as fp:\n        pickle.dump(data, fp)')],
    },
    {
        "id": "M35", "property": "C19", "file": "parallel.py",
        "what": "temporary file renamed into place before it is flushed and closed",
        "edits": [('        pickle.dump(data, fp)\n    tmp.replace(file)', '        pickle.dump(data, fp)\n        tmp.replace(file)')],
    },
]
