#!/usr/bin/env python3
"""Run the pinned suite (guard off) and compare with BASELINE.json's stable_pass.

usage: baseline_check.py [repo_dir] [-n N]
Exit 0 iff every stable_pass test passed.
"""
import json
import os
import subprocess
import sys
import tempfile
import xml.etree.ElementTree as ET

repo = sys.argv[1] if len(sys.argv) > 1 and not sys.argv[1].startswith("-") else "/repo"
n = "12"
if "-n" in sys.argv:
    n = sys.argv[sys.argv.index("-n") + 1]
base = json.load(open("/root/.vp/BASELINE.json"))
stable = set(base["stable_pass"])
out = tempfile.mktemp(suffix=".xml")
env = {k: v for k, v in os.environ.items() if k != "MXLPY_VERIF"}
env["PYTHONPATH"] = f"{repo}/src"
cmd = ["/venv/bin/python", "-m", "pytest", "-q", "-p", "no:cacheprovider", "--timeout=900", "--continue-on-collection-errors", f"--junitxml={out}"]
if n != "0":
    cmd += ["-n", n]
subprocess.run(cmd, cwd=repo, env=env, stdout=subprocess.DEVNULL, stderr=subprocess.DEVNULL, check=False)
passed = set()
for tc in ET.parse(out).getroot().iter("testcase"):
    if not any(c.tag in ("failure", "error", "skipped") for c in tc):
        passed.add(f"{tc.get('classname')}::{tc.get('name')}")
os.unlink(out)
missing = sorted(stable - passed)
print(f"stable_pass={len(stable)} passed_now={len(passed)} stable_not_passing={len(missing)}")
for m in missing[:40]:
    print("  NOT PASSING:", m)
sys.exit(1 if missing else 0)
